//! C02 — Float and mixed-type evaluation follows IEEE-754 with ISO checks.
//!
//! Accepted sets (where the statement leaves freedom) are written next to each operator in
//! `eval_un` / `eval_bin`.
use crate::engine::*;
use crate::gen::*;
use crate::num::*;
use crate::session::{Outcome, Session};
use crate::shared::aexpr::{FloatEcho, A};
use crate::shared::numx::*;
use crate::term::{self, T};
use dashu::integer::IBig;
use proptest::prelude::*;
use serde_json::Value;

pub const UN_FLOAT_FNS: &[&str] = &["sqrt", "exp", "log", "sin", "cos", "tan", "asin", "acos", "atan"];
pub const UN_OPS: &[&str] = &["sqrt", "exp", "log", "sin", "cos", "tan", "asin", "acos", "atan", "float", "float_integer_part", "float_fractional_part", "truncate", "round", "ceiling", "floor", "abs", "sign", "-", "+"];
pub const ROUND_OPS: &[&str] = &["truncate", "round", "ceiling", "floor"];
pub const BIN_OPS: &[&str] = &["/", "**", "^", "atan2", "+", "-", "*", "min", "max"];

/// What the property allows as the outcome of an evaluation.
#[derive(Clone, Debug, Default)]
pub struct Acc {
    pub vals: Vec<V>,
    pub errs: Vec<T>,
    /// an integral exact result may come back as integer or as rational n/1
    pub lenient_rat: bool,
}

pub fn e_zero_div() -> T {
    term::cmp("evaluation_error", vec![term::atom("zero_divisor")])
}
pub fn e_undefined() -> T {
    term::cmp("evaluation_error", vec![term::atom("undefined")])
}
pub fn e_overflow() -> T {
    term::cmp("evaluation_error", vec![term::atom("float_overflow")])
}
fn v_to_t(v: &V) -> T {
    match v {
        V::Int(i) => T::Int(i.clone()),
        V::Rat(n, d) => T::Rat(n.clone(), d.clone()),
        V::F(f) => T::Float(*f),
    }
}
pub fn e_type(ty: &str, v: &V) -> T {
    term::cmp("type_error", vec![term::atom(ty), v_to_t(v)])
}

impl Acc {
    fn val(v: V) -> Acc {
        Acc { vals: vec![v], errs: vec![], lenient_rat: false }
    }
    fn vals(vs: Vec<V>) -> Acc {
        let mut out: Vec<V> = vec![];
        for v in vs {
            if !out.iter().any(|o| same_v(o, &v)) {
                out.push(v);
            }
        }
        Acc { vals: out, errs: vec![], lenient_rat: false }
    }
    fn err(es: Vec<T>) -> Acc {
        let mut a = Acc::default();
        for e in es {
            a.add_err(e);
        }
        a
    }
    fn add_err(&mut self, e: T) {
        if !self.errs.iter().any(|x| x.eq_struct(&e)) {
            self.errs.push(e);
        }
    }
    fn lenient(mut self) -> Acc {
        self.lenient_rat = true;
        self
    }
    pub fn describe(&self) -> String {
        let mut parts: Vec<String> = self.vals.iter().map(|v| v.show()).collect();
        parts.extend(self.errs.iter().map(|e| e.text()));
        parts.join(" | ")
    }
}

fn same_v(a: &V, b: &V) -> bool {
    match (a, b) {
        (V::Int(x), V::Int(y)) => x == y,
        (V::Rat(a, b), V::Rat(c, d)) => a == c && b == d,
        (V::F(x), V::F(y)) => x.to_bits() == y.to_bits(),
        _ => false,
    }
}

/// How float zeros are modelled. `Ieee` is the property's reference. `Pos`/`Neg` model a
/// machine that cannot tell the two zeros apart and holds every zero (operand, intermediate
/// or result) as +0.0 resp. -0.0; they are only used to *classify* a mismatch.
#[derive(Clone, Copy, Debug, Default, PartialEq)]
pub enum ZeroMode {
    #[default]
    Ieee,
    Pos,
    Neg,
}

#[derive(Default)]
pub struct Flags {
    pub nontrivial: bool,
    pub classes: Vec<&'static str>,
    pub zero_mode: ZeroMode,
    /// classify-only: promote the way the linked bignum crate does (known rounding defects)
    pub conv: ConvMode,
    /// model only what the machine is known to do where the oracle otherwise also accepts an
    /// alternative reading (used by C03's classifier, which needs a single value per node)
    pub no_alternatives: bool,
}

fn promote_fl(v: &V, fl: &Flags) -> Option<f64> {
    promote_mode(v, fl.conv)
}

impl Flags {
    fn mark(&mut self, c: &'static str) {
        self.nontrivial = true;
        if !self.classes.contains(&c) {
            self.classes.push(c);
        }
    }
    fn class(&mut self, c: &'static str) {
        if !self.classes.contains(&c) {
            self.classes.push(c);
        }
    }
}

/// finite reference result -> that double; inf -> float_overflow; NaN -> undefined
fn fres(r: f64) -> Acc {
    if r.is_nan() {
        Acc::err(vec![e_undefined()])
    } else if r.is_infinite() {
        Acc::err(vec![e_overflow()])
    } else {
        Acc::val(V::F(r))
    }
}

fn note_leaf_float(f: f64, fl: &mut Flags) {
    if f == 0.0 {
        fl.mark(if f.is_sign_negative() { "operand:-0.0" } else { "operand:0.0" });
    } else if f.abs() < f64::MIN_POSITIVE {
        fl.mark("operand:subnormal");
    } else if f.abs() >= 9007199254740992.0 {
        fl.mark("operand:float>=2^53");
    }
}

fn big_exact(v: &V) -> bool {
    match v {
        V::Int(i) => bit_len(i) > 55,
        V::Rat(..) => true,
        V::F(_) => false,
    }
}

/// The single value of an inner node, or the reason the case is out of the oracle's scope.
enum Inner {
    Val(V),
    Errs(Vec<T>),
}

fn inner(a: Acc) -> Result<Inner, String> {
    if a.vals.is_empty() && !a.errs.is_empty() {
        Ok(Inner::Errs(a.errs))
    } else if a.vals.len() == 1 && a.errs.is_empty() {
        Ok(Inner::Val(a.vals.into_iter().next().unwrap()))
    } else {
        Err("ambiguous-inner-value".into())
    }
}

const MAX_EXACT_BITS: usize = 24_000;

pub fn eval(e: &A, fl: &mut Flags) -> Result<Acc, String> {
    let mut acc = eval_node(e, fl)?;
    if fl.zero_mode != ZeroMode::Ieee {
        for v in acc.vals.iter_mut() {
            if let V::F(f) = v {
                if *f == 0.0 {
                    *f = if fl.zero_mode == ZeroMode::Pos { 0.0 } else { -0.0 };
                }
            }
        }
    }
    Ok(acc)
}

fn eval_node(e: &A, fl: &mut Flags) -> Result<Acc, String> {
    match e {
        A::I(v) => {
            if bit_len(v) > 55 {
                fl.mark("operand:bigint");
            }
            if bit_len(v) > 1024 {
                fl.mark("operand:int>2^1024");
            }
            Ok(Acc::val(V::Int(v.clone())))
        }
        A::Cloth(v) => {
            fl.mark("operand:int-in-bignum-clothing");
            Ok(Acc::val(V::Int(v.clone())))
        }
        A::R(n, d) => {
            if *d <= IBig::ZERO {
                return Err("bad-rational-leaf".into());
            }
            fl.mark("operand:rational");
            Ok(Acc::val(V::rat(n.clone(), d.clone())).lenient())
        }
        A::F(f) => {
            if !f.is_finite() {
                return Err("non-finite-leaf".into());
            }
            note_leaf_float(*f, fl);
            Ok(Acc::val(V::F(*f)))
        }
        A::Op(op, args) if args.len() == 1 => {
            let x = match inner(eval(&args[0], fl)?)? {
                Inner::Val(v) => v,
                Inner::Errs(es) => return Ok(Acc::err(es)),
            };
            eval_un(op, &x, fl)
        }
        A::Op(op, args) if args.len() == 2 => {
            let a = inner(eval(&args[0], fl)?)?;
            let b = inner(eval(&args[1], fl)?)?;
            let (x, y) = match (a, b) {
                (Inner::Val(x), Inner::Val(y)) => (x, y),
                // either operand may be evaluated first
                (Inner::Errs(mut e1), Inner::Errs(e2)) => {
                    e1.extend(e2);
                    return Ok(Acc::err(e1));
                }
                (Inner::Errs(e1), _) | (_, Inner::Errs(e1)) => return Ok(Acc::err(e1)),
            };
            if x.is_exact() != y.is_exact() {
                fl.class("mixed-exact-float");
            }
            eval_bin(op, &x, &y, fl)
        }
        // the three evaluable constants (not generated by C02; used by C03's classifier)
        A::Op(op, args) if args.is_empty() => match op.as_str() {
            "pi" => Ok(Acc::val(V::F(std::f64::consts::PI))),
            "e" => Ok(Acc::val(V::F(std::f64::consts::E))),
            "epsilon" => Ok(Acc::val(V::F(f64::EPSILON))),
            _ => Err("unsupported-node".into()),
        },
        _ => Err("unsupported-node".into()),
    }
}

/// integer-only operators, delegated to C01's exact model (not generated by C02; used by C03's classifier)
fn int_bin(op: &str, x: &V, y: &V) -> Result<Acc, String> {
    use crate::props::c01::{self, E};
    let (V::Int(a), V::Int(b)) = (x, y) else { return Err("type-error-out-of-scope".into()) };
    let e = E::Bin(op.to_string(), Box::new(E::Lit(a.clone())), Box::new(E::Lit(b.clone())));
    let mut fl = c01::Flags { crossed: false };
    match c01::eval(&e, &mut fl) {
        Ok(v) => Ok(Acc::val(V::Int(v))),
        Err(errs) => {
            if errs.contains(&c01::Err1::TooBig) {
                Err("too-big".into())
            } else {
                Ok(Acc::err(errs.iter().map(|e| e.formal()).collect()))
            }
        }
    }
}

/// promote, collecting a float_overflow error when the integer/rational has no finite double
fn prom(v: &V, errs: &mut Vec<T>, fl: &mut Flags) -> f64 {
    match promote_fl(v, fl) {
        Some(f) => {
            if let V::Int(i) = v {
                if bit_len(i) > 53 {
                    fl.mark("promotion:int>2^53");
                }
            }
            f
        }
        None => {
            fl.mark("promotion:overflow");
            errs.push(e_overflow());
            f64::NAN
        }
    }
}

pub fn eval_un(op: &str, x: &V, fl: &mut Flags) -> Result<Acc, String> {
    let r = match op {
        "-" => Acc::val(match x {
            V::Int(i) => V::Int(-i.clone()),
            V::Rat(n, d) => V::Rat(-n.clone(), d.clone()),
            V::F(f) => V::F(-*f),
        }),
        "+" => Acc::val(x.clone()),
        "abs" => Acc::val(match x {
            V::Int(i) => V::Int(iabs(i)),
            V::Rat(n, d) => V::Rat(iabs(n), d.clone()),
            V::F(f) => V::F(f.abs()),
        }),
        // sign: integer sign for exact values; for floats 1.0 / -1.0 / 0.0 (ISO 9.1.? sign)
        "sign" => Acc::val(match x {
            V::Int(i) => V::Int(isign(i)),
            V::Rat(n, _) => V::Int(isign(n)),
            V::F(f) => V::F(if *f > 0.0 {
                1.0
            } else if *f < 0.0 {
                -1.0
            } else {
                0.0
            }),
        }),
        "float" => {
            let mut errs = vec![];
            let p = prom(x, &mut errs, fl);
            if errs.is_empty() {
                Acc::val(V::F(p))
            } else {
                Acc::err(errs)
            }
        }
        "sqrt" | "exp" | "log" | "sin" | "cos" | "tan" | "asin" | "acos" | "atan" => {
            let mut errs = vec![];
            let p = prom(x, &mut errs, fl);
            // statement: sqrt of a negative number, log of a non-positive number -> undefined.
            // log(0): IEEE gives -inf; ISO says undefined, the code says float_overflow: both accepted.
            if op == "sqrt" && x.is_neg() {
                errs.push(e_undefined());
            }
            if op == "log" && x.is_neg() {
                errs.push(e_undefined());
                if p == 0.0 {
                    // a negative rational that underflows to -0.0 when promoted: IEEE log(-0.0) = -inf
                    errs.push(e_overflow());
                }
            }
            if op == "log" && x.is_zero() {
                errs.push(e_undefined());
                errs.push(e_overflow());
            }
            if !errs.is_empty() {
                Acc::err(errs)
            } else {
                let r = match op {
                    "sqrt" => p.sqrt(),
                    "exp" => p.exp(),
                    "log" => p.ln(),
                    "sin" => p.sin(),
                    "cos" => p.cos(),
                    "tan" => p.tan(),
                    "asin" => p.asin(),
                    "acos" => p.acos(),
                    _ => p.atan(),
                };
                if op == "log" && r == f64::NEG_INFINITY {
                    // a positive rational that underflows to 0.0 when promoted
                    Acc::err(vec![e_undefined(), e_overflow()])
                } else {
                    fres(r)
                }
            }
        }
        "float_integer_part" | "float_fractional_part" => {
            let mut errs = vec![];
            let p = prom(x, &mut errs, fl);
            let mut acc = if errs.is_empty() { Acc::val(V::F(if op == "float_integer_part" { p.trunc() } else { p - p.trunc() })) } else { Acc::err(errs) };
            if x.is_exact() && !fl.no_alternatives {
                // ISO gives these a float-only signature; promoting an integer is an accepted extension
                acc.add_err(e_type("float", x));
            }
            acc
        }
        "truncate" | "floor" | "ceiling" | "round" => {
            // the exact integer, whatever its size
            match x {
                V::Int(i) => Acc::val(V::Int(i.clone())),
                _ => {
                    let (n, d) = exact_frac(x);
                    if let V::F(f) = x {
                        if f.abs() >= 36028797018963968.0 {
                            fl.mark("rounding:bignum-result");
                        }
                    }
                    match op {
                        "truncate" => Acc::val(V::Int(trunc_frac(&n, &d))),
                        "floor" => Acc::val(V::Int(floor_frac(&n, &d))),
                        "ceiling" => Acc::val(V::Int(ceil_frac(&n, &d))),
                        _ => {
                            // nearest integer; an exact tie may go away from zero (what round/1
                            // conventionally does) or to floor(x + 1/2) (ISO 9.1.6.1): for positive
                            // ties these coincide, for negative ties both are accepted
                            let two = IBig::from(2);
                            let num = &n * &two + &d; // (2n + d) / (2d) = x + 1/2
                            let den = &d * &two;
                            let fl_half = div_floor(&num, &den);
                            let tie = &fl_half * &den == num;
                            if tie {
                                fl.mark("rounding:tie");
                            }
                            if tie && is_neg(&n) {
                                Acc::vals(vec![V::Int(&fl_half - IBig::ONE), V::Int(fl_half)])
                            } else {
                                Acc::val(V::Int(fl_half))
                            }
                        }
                    }
                }
            }
        }
        "\\" => match x {
            V::Int(i) => Acc::val(V::Int(-i.clone() - IBig::ONE)),
            _ => return Err("type-error-out-of-scope".into()),
        },
        _ => return Err(format!("unsupported-unary:{op}")),
    };
    Ok(r)
}

fn exact_bin(op: &str, x: &V, y: &V) -> Result<V, String> {
    let (a, b) = x.frac();
    let (c, d) = y.frac();
    if bit_len(&a) + bit_len(&b) + bit_len(&c) + bit_len(&d) > MAX_EXACT_BITS {
        return Err("exact-too-big".into());
    }
    let (n, dd) = match op {
        "+" => (&a * &d + &c * &b, &b * &d),
        "-" => (&a * &d - &c * &b, &b * &d),
        "*" => (&a * &c, &b * &d),
        _ => unreachable!(),
    };
    Ok(match (x, y) {
        (V::Int(_), V::Int(_)) => V::Int(n),
        _ => V::rat(n, dd),
    })
}

pub fn eval_bin(op: &str, x: &V, y: &V, fl: &mut Flags) -> Result<Acc, String> {
    let both_exact = x.is_exact() && y.is_exact();
    let r = match op {
        "+" | "-" | "*" => {
            if both_exact {
                Acc::val(exact_bin(op, x, y)?).lenient()
            } else {
                let mut errs = vec![];
                let (p, q) = (prom(x, &mut errs, fl), prom(y, &mut errs, fl));
                if !errs.is_empty() {
                    Acc::err(errs)
                } else {
                    fres(match op {
                        "+" => p + q,
                        "-" => p - q,
                        _ => p * q,
                    })
                }
            }
        }
        "/" => {
            // always float-valued here (the statement lists `/` among the float-valued
            // evaluations); x/0, x/0.0, x/-0.0 -> zero_divisor
            let mut errs = vec![];
            let (p, q) = (prom(x, &mut errs, fl), prom(y, &mut errs, fl));
            if y.is_zero() {
                errs.push(e_zero_div());
            }
            if !errs.is_empty() {
                Acc::err(errs)
            } else if q == 0.0 {
                // a non-zero rational divisor that underflows to 0.0: IEEE x/0.0 = inf (or NaN)
                Acc::err(vec![e_zero_div(), e_overflow(), e_undefined()])
            } else {
                fres(p / q)
            }
        }
        "**" | "^" => {
            if both_exact && op == "^" {
                // integer power is C01's subject; only the simplest exact cases are modelled so
                // that nested expressions stay evaluable
                match (x, y) {
                    (V::Int(b), V::Int(n)) if *n >= IBig::ZERO && *n <= IBig::from(64) && bit_len(b) <= 256 => {
                        let k = u32::try_from(n).unwrap();
                        let mut r = IBig::ONE;
                        for _ in 0..k {
                            r *= b;
                        }
                        return Ok(Acc::val(V::Int(r)));
                    }
                    _ => return Err("exact-caret-out-of-scope".into()),
                }
            }
            let mut errs = vec![];
            let (p, q) = (prom(x, &mut errs, fl), prom(y, &mut errs, fl));
            // statement: 0 ** negative is undefined (IEEE would give inf)
            if x.is_zero() && y.is_neg() {
                errs.push(e_undefined());
            }
            // a negative base with a non-integral exponent is undefined (IEEE: NaN). When the
            // base is a negative rational that underflows to -0.0 on promotion IEEE gives inf
            // instead; both readings are accepted for that corner.
            let neg_frac = x.is_neg() && q.is_finite() && q.fract() != 0.0;
            if neg_frac && p != 0.0 {
                errs.push(e_undefined());
            }
            if !errs.is_empty() {
                Acc::err(errs)
            } else if neg_frac {
                // the negative base underflowed to -0.0 on promotion: the IEEE result for the
                // promoted operands (0.0 or inf) or "undefined" for the exact base
                let mut a = fres(p.powf(q));
                a.add_err(e_undefined());
                a
            } else {
                fres(p.powf(q))
            }
        }
        "atan2" => {
            let mut errs = vec![];
            let (p, q) = (prom(x, &mut errs, fl), prom(y, &mut errs, fl));
            if !errs.is_empty() {
                Acc::err(errs)
            } else if x.is_zero() && y.is_zero() {
                // ISO: undefined; IEEE: a finite value. The statement does not list it: both accepted.
                let mut a = fres(p.atan2(q));
                a.add_err(e_undefined());
                a
            } else {
                fres(p.atan2(q))
            }
        }
        "min" | "max" => {
            let want_max = op == "max";
            if both_exact && matches!(x, V::Int(_)) != matches!(y, V::Int(_)) {
                // integer against rational: no float is involved and min/max are not among the
                // comparison predicates of C04, so no property statement covers this pairing
                // (the machine compares the two as doubles here)
                return Err("minmax-integer-vs-rational-out-of-scope".into());
            }
            if both_exact {
                let ord = cmp_frac(&x.frac(), &y.frac());
                let first = if want_max { ord != std::cmp::Ordering::Less } else { ord != std::cmp::Ordering::Greater };
                Acc::val(if first { x.clone() } else { y.clone() }).lenient()
            } else {
                // a float is involved: operands are compared as doubles; the result is the
                // winning operand as given. When they compare equal the standard leaves the
                // choice (and hence the type) open: either operand or the common double.
                let ex = cmp_frac(&exact_frac(x), &exact_frac(y));
                let exact_first = if want_max { ex != std::cmp::Ordering::Less } else { ex != std::cmp::Ordering::Greater };
                match (promote_fl(x, fl), promote_fl(y, fl)) {
                    (Some(p), Some(q)) => {
                        if p == q {
                            if x.is_exact() != y.is_exact() {
                                fl.mark("minmax:mixed-equal");
                            }
                            Acc::vals(vec![x.clone(), y.clone(), V::F(p)]).lenient()
                        } else {
                            let first = if want_max { p > q } else { p < q };
                            Acc::val(if first { x.clone() } else { y.clone() }).lenient()
                        }
                    }
                    _ => {
                        // an operand beyond the double range: the comparison may overflow, or be exact
                        fl.mark("promotion:overflow");
                        let mut a = Acc::val(if exact_first { x.clone() } else { y.clone() }).lenient();
                        a.add_err(e_overflow());
                        a
                    }
                }
            }
        }
        "//" | "div" | "mod" | "rem" | "gcd" | ">>" | "<<" | "/\\" | "\\/" | "xor" => return int_bin(op, x, y),
        "rdiv" => {
            // exact quotient; a float operand stands for its exact value
            let (a, b) = exact_frac(x);
            let (c, d) = exact_frac(y);
            if c == IBig::ZERO {
                Acc::err(vec![e_zero_div()])
            } else {
                if bit_len(&a) + bit_len(&b) + bit_len(&c) + bit_len(&d) > MAX_EXACT_BITS {
                    return Err("exact-too-big".into());
                }
                Acc::val(V::rat(&a * &d, &b * &c)).lenient()
            }
        }
        _ => return Err(format!("unsupported-binary:{op}")),
    };
    Ok(r)
}

// -------------------------------------------------------------------------------------------
// generators

fn c02_float() -> BoxedStrategy<f64> {
    let special = any::<u16>().prop_map(|k| {
        let vs = [
            0.5,
            -0.5,
            1.5,
            -1.5,
            2.5,
            -2.5,
            3.5,
            -3.5,
            0.49999999999999994,
            -0.49999999999999994,
            4503599627370495.5,
            -4503599627370495.5,
            4503599627370496.5,
            -4503599627370497.5,
            2251799813685248.5,
            9007199254740993.0,
            36028797018963968.0,
            -36028797018963968.0,
            36028797018963960.0,
            -36028797018963976.0,
            72057594037927936.0,
            1.3407807929942596e154,
            1.3407807929942597e154,
            -1.3407807929942597e154,
            1e200,
            -1e200,
            8.98846567431158e307,
            -8.98846567431158e307,
            709.782712893384,
            709.7827128933841,
            -744.4400719213812,
            -745.1332191019412,
            1.0000000000000002,
            -1.0000000000000002,
            0.9999999999999999,
            2.2250738585072014e-308,
            2.225073858507201e-308,
            -2.225073858507201e-308,
            1e-310,
            -1e-310,
            1.5707963267948966,
            -1.5707963267948966,
            3.0,
            -3.0,
            -2.0,
            2.0,
            -8.0,
            0.3333333333333333,
            1e22,
            1e23,
            f64::MAX,
            f64::MIN,
            5e-324,
            -5e-324,
            0.0,
            -0.0,
        ];
        pick(&vs, k)
    });
    let halves = (-40i64..=40).prop_map(|k| k as f64 + 0.5);
    let near_fix = (-6i64..=6, any::<bool>()).prop_map(|(d, neg)| {
        let v = 36028797018963968.0f64; // 2^55: ulp is 8 above, 4 below
        let f = if d >= 0 { v + (d as f64) * 8.0 } else { v + (d as f64) * 4.0 };
        if neg {
            -f
        } else {
            f
        }
    });
    prop_oneof![6 => float_strategy(), 3 => special, 1 => halves, 1 => near_fix].boxed()
}

fn c02_int() -> BoxedStrategy<IBig> {
    let around = (any::<u16>(), -2i64..=2, any::<bool>()).prop_map(|(k, d, neg)| {
        let ks = [53u32, 54, 64, 100, 511, 1023, 1024, 1025, 2000];
        let v = ipow2(pick(&ks, k)) + IBig::from(d);
        if neg {
            -v
        } else {
            v
        }
    });
    // integers whose nearest double is decided by a tie / sticky bit far below the top
    let tie = (any::<u16>(), 0u32..=3, any::<bool>()).prop_map(|(k, variant, neg)| {
        let ks = [54u32, 55, 60, 64, 65, 100, 200, 1000];
        let top = pick(&ks, k);
        let half = ipow2(top - 53); // half an ulp of numbers in [2^top, 2^(top+1))
        let base = ipow2(top) + (IBig::from(variant & 1) * ipow2(top - 52));
        let v = match variant {
            0 | 1 => base + half,
            2 => base + half + IBig::ONE,
            _ => base + half - IBig::ONE,
        };
        if neg {
            -v
        } else {
            v
        }
    });
    prop_oneof![5 => (-20i64..=20).prop_map(IBig::from), 5 => int_strategy(), 2 => around, 2 => tie].boxed()
}

fn c02_rat() -> BoxedStrategy<(IBig, IBig)> {
    let small = (-50i64..=50, 1i64..=50).prop_map(|(n, d)| (IBig::from(n), IBig::from(d)));
    let dyadic = (any::<i64>(), 0u32..=80).prop_map(|(n, s)| (IBig::from(n), ipow2(s)));
    let halfway = (-200i64..=200).prop_map(|k| (IBig::from(2 * k + 1), IBig::from(2)));
    let bigs = (int_strategy(), int_strategy()).prop_map(|(n, d)| {
        let d = iabs(&d) + IBig::ONE;
        (n, d)
    });
    let tiny = (1i64..=9, 1000u32..=1200, any::<bool>()).prop_map(|(n, s, neg)| (IBig::from(if neg { -n } else { n }), ipow2(s) + IBig::ONE));
    // p/q with the quotient one sticky bit away from a rounding boundary
    let sticky = (any::<u64>(), 1u32..=70, any::<bool>()).prop_map(|(m, s, up)| {
        let m = IBig::from((m & !0x7ffu64) | 0x400 | (1u64 << 63)); // 64 bits, exactly halfway between two 53-bit values
        let d = ipow2(s + 64) + IBig::ONE;
        let n = m * ipow2(s) * &d + if up { IBig::ONE } else { IBig::NEG_ONE };
        (n, d)
    });
    prop_oneof![4 => small, 2 => dyadic, 1 => halfway, 2 => bigs, 1 => tiny, 1 => sticky].boxed()
}

fn leaf() -> BoxedStrategy<A> {
    prop_oneof![
        8 => c02_float().prop_map(A::F),
        5 => c02_int().prop_map(A::I),
        1 => (-40i64..=40).prop_map(|v| A::Cloth(IBig::from(v))),
        3 => c02_rat().prop_map(|(n, d)| A::R(n, d)),
    ]
    .boxed()
}

fn float_leaf() -> BoxedStrategy<A> {
    c02_float().prop_map(A::F).boxed()
}

fn zeroish() -> BoxedStrategy<A> {
    prop_oneof![Just(A::F(0.0)), Just(A::F(-0.0)), Just(A::I(IBig::ZERO)), Just(A::R(IBig::ZERO, IBig::from(3))), Just(A::Cloth(IBig::ZERO)), Just(A::bin("-", A::F(1.5), A::F(1.5)))].boxed()
}

fn negish() -> BoxedStrategy<A> {
    prop_oneof![
        (1i64..=5).prop_map(|v| A::I(IBig::from(-v))),
        (1i64..=9).prop_map(|v| A::F(-(v as f64) / 2.0)),
        Just(A::R(IBig::from(-1), IBig::from(2))),
        Just(A::I(-ipow2(70))),
        Just(A::F(-1e300)),
        Just(A::F(-5e-324)),
        Just(A::F(-0.0)),
    ]
    .boxed()
}

fn mk_un(op: &str, a: A) -> A {
    // float_integer_part / float_fractional_part have a float-only signature in ISO: give them a float
    if (op == "float_integer_part" || op == "float_fractional_part") && !matches!(a, A::F(_)) {
        A::un(op, A::un("float", a))
    } else {
        A::un(op, a)
    }
}

pub fn expr_strategy() -> BoxedStrategy<A> {
    let single = prop_oneof![
        6 => (any::<u16>(), leaf()).prop_map(|(k, a)| mk_un(pick(UN_OPS, k), a)),
        8 => (any::<u16>(), leaf(), leaf()).prop_map(|(k, a, b)| A::bin(pick(BIN_OPS, k), a, b)),
        // rounding functions on floats (ties, 2^53.., beyond the small-integer range)
        4 => (any::<u16>(), float_leaf()).prop_map(|(k, a)| A::un(pick(ROUND_OPS, k), a)),
        2 => (any::<u16>(), c02_rat()).prop_map(|(k, (n, d))| A::un(pick(ROUND_OPS, k), A::R(n, d))),
        // float functions on floats
        4 => (any::<u16>(), float_leaf()).prop_map(|(k, a)| A::un(pick(UN_FLOAT_FNS, k), a)),
        // division by the zeros
        2 => (leaf(), zeroish()).prop_map(|(a, b)| A::bin("/", a, b)),
        // zero base, negative exponent; negative base, fractional exponent
        2 => (any::<bool>(), zeroish(), negish()).prop_map(|(c, a, b)| A::bin(if c { "**" } else { "^" }, a, b)),
        2 => (any::<bool>(), negish(), float_leaf()).prop_map(|(c, a, b)| A::bin(if c { "**" } else { "^" }, a, b)),
        2 => (any::<bool>(), float_leaf(), leaf()).prop_map(|(c, a, b)| A::bin(if c { "**" } else { "^" }, a, b)),
        1 => (zeroish(), zeroish()).prop_map(|(a, b)| A::bin("atan2", a, b)),
        // mixed promotion: an exact operand against a float
        4 => (any::<u16>(), any::<bool>(), prop_oneof![c02_int().prop_map(A::I), c02_rat().prop_map(|(n, d)| A::R(n, d))], float_leaf()).prop_map(|(k, swap, a, b)| {
            let op = pick(&["+", "-", "*", "/", "min", "max", "**", "atan2"], k);
            if swap { A::bin(op, b, a) } else { A::bin(op, a, b) }
        }),
        // overflow by multiplication / addition of large finite doubles
        2 => (any::<u16>(), any::<u16>(), any::<u16>()).prop_map(|(k, i, j)| {
            let big = [f64::MAX, f64::MIN, 1.3407807929942597e154, -1.3407807929942597e154, 1e308, -1e308, 8.98846567431158e307, 1e200, 1.7976931348623155e308];
            A::bin(pick(&["+", "-", "*", "/", "**"], k), A::F(pick(&big, i)), A::F(pick(&[f64::MAX, 1e308, -1e308, 1e200, 2.0, 0.5, 1e-200, 5e-324, 8.98846567431158e307, -8.98846567431158e307], j)))
        }),
    ];
    let deep = leaf().prop_recursive(3, 10, 2, |inner| {
        prop_oneof![
            2 => (any::<u16>(), inner.clone()).prop_map(|(k, a)| mk_un(pick(UN_OPS, k), a)),
            3 => (any::<u16>(), inner.clone(), inner.clone()).prop_map(|(k, a, b)| A::bin(pick(BIN_OPS, k), a, b)),
        ]
    });
    prop_oneof![3 => single, 2 => deep].boxed()
}

// -------------------------------------------------------------------------------------------
// check

pub struct Env {
    pub s: Session,
    pub echo: FloatEcho,
}

pub fn mk_env() -> Env {
    let mut s = Session::new(&[]);
    // The float table keeps whichever zero it sees first for the life of the machine; make
    // that +0.0 on every machine so that a case behaves the same on a used and on a fresh one.
    let _ = s.ask("X = 0.0", "X");
    Env { s, echo: FloatEcho::default() }
}

/// A two-step history on a brand-new machine: evaluate `first`, then `then`; `then` is judged.
#[derive(Clone, Debug, serde::Serialize, serde::Deserialize)]
pub struct Hist {
    pub first: A,
    pub then: A,
}

pub fn mk_raw_env() -> Env {
    Env { s: Session::new(&[]), echo: FloatEcho::default() }
}

pub fn check_hist(env: &mut Env, h: &Hist) -> Verdict {
    let mut fl = Flags::default();
    let acc = match eval(&h.then, &mut fl) {
        Ok(a) => a,
        Err(why) => return Verdict::Discard(why),
    };
    let _ = env.s.ask(&format!("X is {}", h.first.text()), "X");
    let o = env.s.ask(&format!("X is {}", h.then.text()), "X");
    match judge_modes("after-history", &h.then, &acc, &o) {
        None => Verdict::pass(true, &["history"]),
        Some(Verdict::Fail { signature, detail }) => {
            let sig = signature.replace("zero-sign:lost", "zero-sign:from-history");
            Verdict::fail(sig, format!("on a new machine, after X is {}: {detail}", h.first.text()))
        }
        Some(v) => v,
    }
}

fn history_cases() -> Vec<Hist> {
    let negzero = A::bin("*", A::I(IBig::ZERO), A::F(-1.0));
    let one = A::I(IBig::ONE);
    vec![
        Hist { first: negzero.clone(), then: A::bin("atan2", A::F(0.0), A::F(-1.0)) },
        Hist { first: negzero.clone(), then: A::bin("atan2", A::bin("-", A::F(1.5), A::F(1.5)), A::F(-2.0)) },
        Hist { first: one.clone(), then: A::bin("atan2", A::F(0.0), A::F(-1.0)) },
        Hist { first: one, then: A::bin("atan2", A::bin("*", A::F(0.0), A::F(-1.0)), A::I(IBig::from(-3))) },
    ]
}

/// None = the outcome is in the accepted set
fn judge(path: &str, e: &A, acc: &Acc, got: &Outcome) -> Option<Verdict> {
    let root = e.root();
    let ctx = || format!("{path}: X is {} gave {} ; accepted: {}", e.text(), got.short(), acc.describe());
    match got {
        Outcome::Panic(m) => Some(Verdict::fail(format!("panic:{}", m.split_whitespace().next().unwrap_or("?")), ctx())),
        Outcome::Harness(m) => Some(Verdict::Discard(format!("harness:{}", m.chars().take(40).collect::<String>()))),
        Outcome::Limit => Some(Verdict::Discard("limit".into())),
        Outcome::Sols(sols) => {
            if sols.len() != 1 {
                return Some(Verdict::fail(format!("not-one-solution:{root}"), ctx()));
            }
            let t = &sols[0];
            if acc.vals.iter().any(|v| v.matches(t, acc.lenient_rat)) {
                return None;
            }
            // classify the miss
            let class = match t {
                T::Float(f) if !f.is_finite() => "non-finite-result",
                _ if acc.vals.is_empty() => "missing-error",
                T::Float(_) if acc.vals.iter().any(|v| matches!(v, V::F(_))) => "wrong-float",
                T::Int(_) if acc.vals.iter().any(|v| matches!(v, V::Int(_))) => "wrong-integer",
                _ => "wrong-type-or-value",
            };
            Some(Verdict::fail(format!("{class}:{root}"), ctx()))
        }
        Outcome::Ex(_) => {
            let ok = match got.formal() {
                Some(f) => acc.errs.iter().any(|e1| e1.eq_struct(&f)),
                None => false,
            };
            if ok {
                None
            } else if acc.errs.is_empty() {
                Some(Verdict::fail(format!("unexpected-error:{root}"), ctx()))
            } else {
                Some(Verdict::fail(format!("wrong-error:{root}"), ctx()))
            }
        }
    }
}

/// If the outcome is rejected under the IEEE model but accepted by a model in which the two
/// zeros are indistinguishable, the failure is the (known) loss of the sign of zero.
fn judge_modes(path: &str, e: &A, acc: &Acc, got: &Outcome) -> Option<Verdict> {
    let v = judge(path, e, acc, got)?;
    if let Verdict::Fail { detail, .. } = &v {
        // simplest explanation first
        let convs = [(false, false), (true, false), (false, true), (true, true)];
        for zm in [ZeroMode::Ieee, ZeroMode::Pos, ZeroMode::Neg] {
            for (dr, di) in convs {
                if !dr && !di && zm == ZeroMode::Ieee {
                    continue;
                }
                let mut fl = Flags { zero_mode: zm, conv: ConvMode { dashu_rat: dr, dashu_int: di }, ..Flags::default() };
                let Ok(alt) = eval(e, &mut fl) else { continue };
                if judge(path, e, &alt, got).is_some() {
                    continue;
                }
                let mut parts: Vec<&str> = vec![];
                let mut why: Vec<String> = vec![];
                if dr {
                    parts.push("rational-misrounded");
                    why.push("each rational operand is converted to a double the way dashu-ratio 0.4.2 RBig::to_f64 does (quotient rounded to 53 or 54 bits, then rounded again; one sticky bit ignored; early flush to zero)".into());
                }
                if di {
                    parts.push("bigint-misrounded");
                    why.push("each integer operand above 128 bits is converted the way dashu-int 0.4.2 IBig::to_f64 does (the bit directly below the round bit is left out of the sticky bit)".into());
                }
                let sig = if zm == ZeroMode::Ieee {
                    format!("float-promotion:{}", parts.join("+"))
                } else {
                    why.push(format!("every zero is held as {}", if zm == ZeroMode::Pos { "+0.0" } else { "-0.0" }));
                    if parts.is_empty() {
                        "zero-sign:lost".to_string()
                    } else {
                        format!("float-promotion:{}+zero-sign", parts.join("+"))
                    }
                };
                return Some(Verdict::fail(sig, format!("{detail} ; the result is what IEEE gives when {}", why.join(" and "))));
            }
        }
    }
    Some(v)
}

fn transport_discard(o: &Outcome) -> Option<Verdict> {
    // a rational with denominator 1 passes integer/1 inside vp_enc and cannot be decoded by the
    // core transport (reported under C05); such results are not judged here
    match o {
        Outcome::Harness(m) if m.contains("unknown tag i/1") => Some(Verdict::Discard("transport:integral-rational-result".into())),
        _ => None,
    }
}

pub fn check(env: &mut Env, e: &A) -> Verdict {
    let mut fl = Flags::default();
    let acc = match eval(e, &mut fl) {
        Ok(a) => a,
        Err(why) => return Verdict::Discard(why),
    };
    // every float literal must be read back bit-exactly by this build, otherwise the operand
    // the machine sees is not the one the oracle assumes (literal conversion is C16's subject).
    // Zeros are exempt: the machine cannot hold both zeros (see ZeroMode), which is judged below.
    let mut fs = vec![];
    e.floats(&mut fs);
    fs.retain(|f| *f != 0.0);
    if !env.echo.verify(&mut env.s, &fs) {
        return Verdict::Discard("float-literal-not-read-exactly".into());
    }
    let txt = e.text();
    let o1 = env.s.ask(&format!("E = {txt}, X is E"), "X");
    if let Some(v) = transport_discard(&o1) {
        return v;
    }
    if let Some(v) = judge_modes("runtime", e, &acc, &o1) {
        return v;
    }
    let o2 = env.s.ask(&format!("retractall(c02t(_)), assertz((c02t(X) :- X is {txt})), c02t(Y)"), "Y");
    if let Some(v) = transport_discard(&o2) {
        return v;
    }
    if let Some(v) = judge_modes("compiled", e, &acc, &o2) {
        return v;
    }
    // where the oracle accepts several outcomes the two evaluators must still agree
    if acc.vals.len() + acc.errs.len() > 1 {
        let same = match (&o1, &o2) {
            (Outcome::Sols(a), Outcome::Sols(b)) => a.len() == b.len() && a.iter().zip(b.iter()).all(|(x, y)| x.eq_struct(y) || matches!((x, y), (T::Float(p), T::Float(q)) if p.to_bits() == q.to_bits())),
            (Outcome::Ex(_), Outcome::Ex(_)) => match (o1.formal(), o2.formal()) {
                (Some(a), Some(b)) => a.eq_struct(&b),
                _ => false,
            },
            _ => false,
        };
        if !same {
            return Verdict::fail(format!("paths-disagree:{}", e.root()), format!("X is {txt}: run-time evaluation gave {}, compiled clause gave {}", o1.short(), o2.short()));
        }
    }
    if !acc.errs.is_empty() && acc.vals.is_empty() {
        fl.mark("error-expected");
        for er in &acc.errs {
            if er.eq_struct(&e_overflow()) {
                fl.class("expect:float_overflow");
            } else if er.eq_struct(&e_undefined()) {
                fl.class("expect:undefined");
            } else if er.eq_struct(&e_zero_div()) {
                fl.class("expect:zero_divisor");
            }
        }
    }
    if acc.vals.len() > 1 {
        fl.class("several-values-accepted");
    }
    if let Some(V::F(f)) = acc.vals.first() {
        if *f != 0.0 && f.abs() < f64::MIN_POSITIVE {
            fl.mark("result:subnormal");
        }
    }
    if let Some(V::Int(i)) = acc.vals.first() {
        if bit_len(i) > 55 {
            fl.class("result:bigint");
        }
    }
    if e.ops() > 1 {
        fl.class("nested");
    }
    let rootc = format!("root:{}", e.root());
    let mut classes: Vec<&str> = fl.classes.clone();
    classes.push(&rootc);
    Verdict::pass(fl.nontrivial, &classes)
}

pub struct C02;

impl Prop for C02 {
    fn id(&self) -> &'static str {
        "C02"
    }
    fn rule(&self) -> &'static str {
        "expression trees (depth<=3; 60% a single operator) over sqrt exp log sin cos tan asin acos atan float float_integer_part float_fractional_part truncate round ceiling floor abs sign - + / ** ^ atan2 * min max with leaves: floats uniform over all finite bit patterns plus boundary values (+-0.0, subnormals, 2^53.., 2^55 neighbours, x.5 ties, overflow thresholds), integers (small, >2^53 with tie/sticky patterns, >2^1024), rationals (small, dyadic, halves, huge, underflowing, sticky-bit); evaluated by is/2 from a run-time term and from an assertz-compiled clause; compared with: nearest-even promotion written in the harness + the Rust f64 operation (bit-exact, zeros by value), exact integers for the rounding functions, and the accepted evaluation_error set when the reference is inf/NaN/undefined; non-trivial = an error is expected, or an operand is +-0.0/subnormal/|x|>=2^53/bignum/rational/needs inexact promotion, or round hits an exact tie, or the result is subnormal; distinct by case encoding"
    }
    fn assumptions(&self) -> Vec<String> {
        vec![
            "Rust std f64 functions (the libm scryer itself calls) are the IEEE reference for the transcendental functions; the check is about choice of function, promotion and finiteness checks, not libm accuracy".into(),
            "float literals are sent as shortest round-trip text and only used after the machine echoed them bit-exactly".into(),
            "dashu integer arithmetic for the exact model (int/rational -> double conversion is written twice, independently of dashu's to_f64)".into(),
        ]
    }
    fn run_shard(&self, cfg: &ShardCfg) -> ShardResult {
        let mut d = Driver::new(cfg, "C02");
        let n = cfg.share(cfg.tier.pick(60_000, 3_000_000));
        d.run("expr", 0, n, 2000, expr_strategy(), &mk_env, &check);
        if cfg.shard == 0 {
            d.run_list("history", history_cases(), 1, &mk_raw_env, &check_hist);
        }
        d.finish()
    }
    fn replay(&self, kind: &str, case: &Value) -> Verdict {
        if kind == "history" {
            replay_case::<Hist, Env>(case, &mk_raw_env, &check_hist)
        } else {
            replay_case::<A, Env>(case, &mk_env, &check)
        }
    }
}
