//! C07 — Compiled programs compute ISO SLD-resolution answers.
//!
//! Generated programs (shared::proggen: termination by construction, clause shapes aimed at the
//! register allocator / chunking / cut-barrier logic of the WAM compiler) are consulted as static
//! code under a fresh predicate prefix; every query is run on scryer (all solutions through
//! findall, or the uncaught ball) and on the reference interpreter (shared::refint). Ordered
//! answer lists are compared exactly (each answer up to variable renaming), errors by Formal.
//! Accepted freedom: the Context of error(Formal, Context); queries for which the reference says
//! Limit / Unsupported (floats, cyclic terms, order of distinct variables, two candidate errors
//! in one arithmetic expression, arg/3 enumeration) are skipped and counted, never judged.
use crate::engine::*;
use crate::session::{Outcome, Session};
use crate::shared::proggen::*;
use crate::shared::refint::{ball_matches, Interp, Limits, RefOutcome};
use crate::term::T;
use serde_json::{json, Value};
use std::panic::{catch_unwind, AssertUnwindSafe};
use std::sync::atomic::{AtomicU64, Ordering};

pub static Q_COMPARED: AtomicU64 = AtomicU64::new(0);
pub static Q_SKIP_LIMIT: AtomicU64 = AtomicU64::new(0);
pub static Q_SKIP_UNSUP: AtomicU64 = AtomicU64::new(0);
pub static Q_ERRORS: AtomicU64 = AtomicU64::new(0);
pub static Q_MULTI: AtomicU64 = AtomicU64::new(0);

pub struct Env {
    pub s: Session,
    pub n: u64,
}

pub fn mk_env() -> Env {
    Env { s: Session::new(&[]), n: 0 }
}

pub fn ref_limits() -> Limits {
    Limits { max_steps: 30_000, max_solutions: 300, max_term_nodes: 2_000 }
}

pub enum LoadErr {
    Panic(String),
    Rejected(String),
}

/// consult program text into `user`; a sentinel fact proves that the load went through
pub fn load(s: &mut Session, text: &str, tag: &str) -> Result<(), LoadErr> {
    let full = format!("{text}\n{tag}_loaded.\n");
    s.log.push(format!("%consult\n{full}"));
    let machine = &mut s.machine;
    let res = catch_unwind(AssertUnwindSafe(|| {
        machine.consult_module_string("user", full);
    }));
    if res.is_err() {
        s.poisoned = true;
        return Err(LoadErr::Panic(crate::session::take_last_panic()));
    }
    match s.ask(&format!("{tag}_loaded"), "[]") {
        Outcome::Sols(v) if v.len() == 1 => Ok(()),
        Outcome::Panic(m) => Err(LoadErr::Rejected(format!("next query panicked: {m}"))),
        o => Err(LoadErr::Rejected(o.short())),
    }
}

fn functor_of(t: &T) -> String {
    match t {
        T::Cmp(n, a) if n == "error" && a.len() == 2 => functor_of(&a[0]),
        T::Cmp(n, a) => format!("{n}/{}", a.len()),
        T::Atom(a) => a.clone(),
        T::Var(_) => "var".into(),
        _ => "other".into(),
    }
}

/// None = agreement
pub fn compare(expected: &RefOutcome, got: &Outcome) -> Option<(String, String)> {
    match (expected, got) {
        (_, Outcome::Panic(m)) => Some((format!("panic:{}", m.split_whitespace().next().unwrap_or("?")), format!("scryer panicked: {m}"))),
        (RefOutcome::Sols(e), Outcome::Sols(o)) => {
            if e.len() != o.len() {
                let k = if o.len() < e.len() { "fewer" } else { "more" };
                return Some((format!("wrong-answers:{k}"), format!("expected {} answers, got {}", e.len(), o.len())));
            }
            for (i, (x, y)) in e.iter().zip(o).enumerate() {
                // an answer may carry a caught error term: its Context is free
                if !x.eq_struct(y) && !ball_matches(x, y) {
                    return Some(("wrong-answers:different".into(), format!("answer {} of {}: expected {} got {}", i + 1, e.len(), x.text(), y.text())));
                }
            }
            None
        }
        (RefOutcome::Ex(b), Outcome::Ex(o)) => {
            if ball_matches(b, o) {
                None
            } else {
                Some((format!("wrong-error:{}->{}", functor_of(b), functor_of(o)), format!("expected ball {} got {}", b.text(), o.text())))
            }
        }
        (RefOutcome::Sols(e), Outcome::Ex(o)) => Some((format!("error-instead-of-answers:{}", functor_of(o)), format!("expected {} answers, got ball {}", e.len(), o.text()))),
        (RefOutcome::Ex(b), Outcome::Sols(o)) => Some((format!("answers-instead-of-error:{}", functor_of(b)), format!("expected ball {}, got {} answers", b.text(), o.len()))),
        (_, other) => Some(("unexpected-outcome:".into(), format!("scryer side: {}", other.short()))),
    }
}

pub fn check(env: &mut Env, case: &GenCase) -> Verdict {
    if let Ok(p) = std::env::var("VERIF_C07_LOG") {
        // dev aid for state-dependent crashes: append every case (with the machine-local index)
        use std::io::Write;
        if let Ok(mut f) = std::fs::OpenOptions::new().create(true).append(true).open(p) {
            let _ = writeln!(f, "{}", serde_json::json!({"n": env.n, "case": case}));
        }
    }
    let prefix = format!("c{}x_", env.n);
    env.n += 1;
    let c = rename_case(case, &prefix);
    let text = render_program(&c.prog);
    match load(&mut env.s, &text, &format!("c{}", env.n)) {
        Ok(()) => {}
        Err(LoadErr::Panic(m)) => return Verdict::fail(format!("panic:{}", m.split_whitespace().next().unwrap_or("?")), format!("consult panicked: {m}\n{text}")),
        Err(LoadErr::Rejected(m)) => return Verdict::fail("load-rejected:", format!("valid program text was not loaded ({m})\n{text}")),
    }
    let mut interp = Interp::new(&c.prog);
    let lim = ref_limits();
    let mut compared = 0;
    let mut multi = false;
    let mut classes: Vec<&str> = features(&c.prog).into_iter().collect();
    for q in &c.queries {
        let expected = interp.solve(&q.goal, &q.template, &lim);
        match &expected {
            RefOutcome::Limit => {
                Q_SKIP_LIMIT.fetch_add(1, Ordering::Relaxed);
                continue;
            }
            RefOutcome::Unsupported(_) => {
                Q_SKIP_UNSUP.fetch_add(1, Ordering::Relaxed);
                continue;
            }
            RefOutcome::Ex(_) => {
                Q_ERRORS.fetch_add(1, Ordering::Relaxed);
                if !classes.contains(&"query:error") {
                    classes.push("query:error");
                }
            }
            RefOutcome::Sols(v) => {
                let k = match v.len() {
                    0 => "query:fails",
                    1 => "query:1-answer",
                    _ => "query:>=2-answers",
                };
                if v.len() >= 2 {
                    multi = true;
                    Q_MULTI.fetch_add(1, Ordering::Relaxed);
                }
                if !classes.contains(&k) {
                    classes.push(k);
                }
            }
        }
        let goal = goal_text(&q.goal);
        // (no acyclic_term/1 guard on the answer: that builtin itself corrupts terms on this tree)
        let got = env.s.ask(&goal, &q.template.text());
        if let Outcome::Harness(m) = &got {
            return Verdict::Discard(format!("harness:{}", m.chars().take(40).collect::<String>()));
        }
        compared += 1;
        Q_COMPARED.fetch_add(1, Ordering::Relaxed);
        if let Some((sig, detail)) = compare(&expected, &got) {
            // a program that contains the shape of an open known finding gets a qualified
            // signature (the generator rewrites those shapes away; witness replays keep them)
            let shapes: Vec<&str> = known_shapes(&c.prog).into_iter().collect();
            let sig = if shapes.is_empty() || sig.starts_with("panic") { sig } else { format!("{sig}+{}", shapes.join("+")) };
            return Verdict::fail(sig, format!("?- {goal}.  {detail}\nreference: {}\nscryer:    {}\nprogram:\n{text}", expected.short(), got.short()));
        }
    }
    if compared == 0 {
        return Verdict::Discard("no-decidable-query".into());
    }
    let nontrivial = multi || classes.iter().any(|c| matches!(*c, "cut-in-disjunction" | "cut-in-ite-branch" | "cut-in-condition" | "ite-in-disjunction" | "permanent-vars>=2"));
    Verdict::pass(nontrivial, &classes)
}

pub fn add_counters(d: &mut Driver) {
    d.res.extra.insert("queries_compared".into(), json!(Q_COMPARED.load(Ordering::Relaxed)));
    d.res.extra.insert("queries_skipped_reference_limit".into(), json!(Q_SKIP_LIMIT.load(Ordering::Relaxed)));
    d.res.extra.insert("queries_skipped_reference_unsupported".into(), json!(Q_SKIP_UNSUP.load(Ordering::Relaxed)));
    d.res.extra.insert("queries_expecting_error".into(), json!(Q_ERRORS.load(Ordering::Relaxed)));
    d.res.extra.insert("queries_with_2_or_more_answers".into(), json!(Q_MULTI.load(Ordering::Relaxed)));
}

pub struct C07;

impl Prop for C07 {
    fn id(&self) -> &'static str {
        "C07"
    }
    fn rule(&self) -> &'static str {
        "programs of 1-6 predicates x 1-5 clauses x 0-6 body goals (nesting <= 3) over , ; -> \\+ ! call/1..8 findall/3 catch/3 throw/1 = \\= == \\== type tests is/2 comparisons functor/3 arg/3 =../2 copy_term/2 compare/3, calls to lower-numbered predicates or list recursion (termination by construction), arities 0-12, wide clauses (>8 permanent variables), deep heads; consulted as static code under a fresh prefix, up to 7 queries per program (all-unbound, partially bound, wrapped in call/N, \\+, ->, findall) compared with the reference interpreter: ordered answers up to variable renaming, errors by Formal; non-trivial = a cut inside a disjunction / if-then-else branch or condition, an if-then-else inside a disjunction, >= 2 permanent variables in a clause, or a query with >= 2 answers; distinct by case encoding"
    }
    fn assumptions(&self) -> Vec<String> {
        vec![
            "the reference interpreter shared/refint.rs (unit-tested on the ISO worked examples for cut, if-then-else, negation, catch/throw, call/N, findall)".into(),
            "the reader parses functional notation, quoted atoms, integers, lists and parenthesised , ; -> \\+ correctly (C15-C17 check the reader)".into(),
            "findall/3 + the vp_enc transport of support.pl report scryer's answers faithfully".into(),
        ]
    }
    fn run_shard(&self, cfg: &ShardCfg) -> ShardResult {
        let mut d = Driver::new(cfg, "C07");
        let n = cfg.share(cfg.tier.pick(6_000, 300_000));
        d.run("program", 0, n, 250, case_strategy(GenCfg::default()), &mk_env, &check);
        add_counters(&mut d);
        d.finish()
    }
    fn replay(&self, _kind: &str, case: &Value) -> Verdict {
        replay_case::<GenCase, Env>(case, &mk_env, &check)
    }
    /// triage helper: `vcheck child C07 run file.json` with {"text": program, "query": goal, "template": t}
    /// prints scryer's and the reference interpreter's outcome
    fn child(&self, mode: &str, input: &Value) -> i32 {
        if mode == "shardseq" {
            // dev helper: regenerate the case stream of a shard (input {"shard":k,"of":n,"seed":s,"count":c,
            // "refresh":r}) and run it, printing the index first; writes the cases since the last
            // refresh to scratch/seq.json so that a state-dependent crash can be replayed with "seq"
            use proptest::strategy::{Strategy, ValueTree};
            use proptest::test_runner::{Config, RngAlgorithm, TestRng, TestRunner};
            use std::io::Write;
            let cfg = ShardCfg { tier: Tier::Quick, seed: input["seed"].as_u64().unwrap_or(0), shard: input["shard"].as_u64().unwrap_or(0) as u32, nshards: input["of"].as_u64().unwrap_or(1) as u32, journal: None, resume: None, out: None };
            let seed = cfg.rng_seed("C07", 0);
            let mut seed_bytes = [0u8; 32];
            for i in 0..4 {
                seed_bytes[i * 8..(i + 1) * 8].copy_from_slice(&seed.wrapping_add((i as u64).wrapping_mul(0x9E3779B97F4A7C15)).to_le_bytes());
            }
            let mut runner = TestRunner::new_with_rng(Config::default(), TestRng::from_seed(RngAlgorithm::ChaCha, &seed_bytes));
            let strat = case_strategy(GenCfg::default());
            let refresh = input["refresh"].as_u64().unwrap_or(250);
            let mut env = mk_env();
            let mut since: Vec<GenCase> = vec![];
            for i in 0..input["count"].as_u64().unwrap_or(1000) {
                let case = strat.new_tree(&mut runner).unwrap().current();
                if i % refresh == 0 {
                    env = mk_env();
                    since.clear();
                }
                since.push(case.clone());
                std::fs::write(format!("{}/scratch/seq.json", verif_dir()), serde_json::to_vec(&since).unwrap()).ok();
                print!("{i} ");
                std::io::stdout().flush().ok();
                let v = check(&mut env, &case);
                if let Verdict::Fail { signature, .. } = v {
                    println!("\nFAIL at {i}: {signature}");
                }
            }
            println!("\ndone");
            return 0;
        }
        if mode == "seq" {
            // input: a JSON list of cases, run in order on one machine
            use std::io::Write;
            let cases: Vec<GenCase> = serde_json::from_value(input.clone()).expect("list of cases");
            let mut env = mk_env();
            for (i, c) in cases.iter().enumerate() {
                print!("{i} ");
                std::io::stdout().flush().ok();
                if let Verdict::Fail { signature, .. } = check(&mut env, c) {
                    println!("\nFAIL at {i}: {signature}");
                }
            }
            println!("\ndone");
            return 0;
        }
        if mode == "mkcase" {
            // input {"text": program over p0..pN, "queries": [[goal, template], ..]} -> prints the GenCase JSON
            let prog = crate::shared::refint::Program::from_text(input["text"].as_str().unwrap_or("")).expect("program text");
            let mut queries = vec![];
            for q in input["queries"].as_array().cloned().unwrap_or_default() {
                let qt = crate::shared::plparse::parse_term(&format!("'$q'(({}),({}))", q[0].as_str().unwrap(), q[1].as_str().unwrap())).expect("query text");
                let T::Cmp(_, a) = qt else { unreachable!() };
                queries.push(Query { goal: a[0].clone(), template: a[1].clone() });
            }
            println!("{}", serde_json::to_string(&GenCase { prog, queries }).unwrap());
            return 0;
        }
        if mode == "case" {
            // input: a replay file or a bare case; prints program, then per query reference / scryer
            use std::io::Write;
            let cv = if input.get("case").is_some() { input["case"].clone() } else { input.clone() };
            let case: GenCase = serde_json::from_value(cv).expect("case");
            let c = rename_case(&case, "k_");
            let text = render_program(&c.prog);
            println!("{text}");
            let mut s = Session::new(&[]);
            if load(&mut s, &text, "dbg").is_err() {
                println!("load failed");
                return 1;
            }
            for q in &c.queries {
                let g = goal_text(&q.goal);
                println!("?- {g}.");
                let mut it = Interp::new(&c.prog);
                println!("   reference: {}", it.solve(&q.goal, &q.template, &ref_limits()).short());
                std::io::stdout().flush().ok();
                println!("   scryer:    {}", s.ask(&g, &q.template.text()).short());
                std::io::stdout().flush().ok();
            }
            return 0;
        }
        run_text(input["text"].as_str().unwrap_or(""), input["query"].as_str().unwrap_or("true"), input["template"].as_str().unwrap_or("[]"));
        0
    }
}

pub fn run_text(text: &str, query: &str, template: &str) {
    let mut s = Session::new(&[]);
    match load(&mut s, text, "dbg") {
        Ok(()) => println!("scryer:    {}", s.ask(query, template).short()),
        Err(LoadErr::Panic(m)) => println!("scryer:    consult panicked {m}"),
        Err(LoadErr::Rejected(m)) => println!("scryer:    load rejected {m}"),
    }
    let prog = crate::shared::refint::Program::from_text(text);
    let qt = crate::shared::plparse::parse_term(&format!("'$q'(({query}),({template}))"));
    match (prog, qt) {
        (Ok(p), Ok(T::Cmp(_, a))) => println!("reference: {}", crate::shared::refint::solve(&p, &a[0], &a[1], &ref_limits()).short()),
        (p, q) => println!("reference: cannot parse ({:?} / {:?})", p.err(), q.err()),
    }
}
