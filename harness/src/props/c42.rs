//! C42 — Module qualification and imports resolve to the right definitions.
//!
//! A case is a layout of 2..4 module files m1..mK (+ a fixed meta-predicate module mm and a user
//! file), written to a scratch directory and loaded into a fresh machine. Every module defines a
//! subset of p/1, q/1, r/1 (each definition returns the module's name), exports a subset of its
//! definitions, and imports from higher-numbered modules fully or selectively. Calls are made
//! qualified (M:G for every M and G) and unqualified from inside every module (static call,
//! call/1, findall/3, maplist/2, and through meta-predicates of mm with goal and closure
//! arguments); a small resolver model says which definition must answer.
use crate::engine::*;
use crate::session::{Outcome, Session};
use crate::term::{atom, cmp, list, T};
use proptest::prelude::*;
use serde::{Deserialize, Serialize};
use serde_json::Value;
use std::sync::atomic::{AtomicU64, Ordering};

/// Signatures carry no ':' (the driver shrinks within the text before the first ':'; with a
/// colon-free signature a failure can only shrink to a case with exactly the same signature, so an
/// unknown failure can never be minimised into a tolerated known one). Panics keep their form.
fn vfail(sig: impl Into<String>, detail: impl Into<String>) -> Verdict {
    Verdict::fail(nsig(&sig.into()), detail)
}
fn nsig(s: &str) -> String {
    if s.starts_with("panic:") {
        s.to_string()
    } else {
        s.trim_end_matches(':').replace(':', "/")
    }
}

pub const C42_PL: &str = include_str!("../../prolog/c42.pl");
pub const NAMES: [&str; 3] = ["p", "q", "r"];

#[derive(Clone, Debug, Serialize, Deserialize, PartialEq)]
pub struct Imp {
    /// index into `mods` of the exporting module
    pub from: usize,
    /// None = use_module/1 (everything exported); Some(names) = use_module/2 import list
    pub select: Option<[bool; 3]>,
}

#[derive(Clone, Debug, Serialize, Deserialize, PartialEq)]
pub struct Mod {
    pub defs: [bool; 3],
    pub exports: [bool; 3],
    pub imports: Vec<Imp>,
    /// imports the meta-predicate module mm (mp/1 with a goal argument, mpt/2 with a closure)
    pub meta: bool,
    /// declares d/1 dynamic
    pub dynamic: bool,
    /// local definitions come before (true) or after (false) the import directives
    pub defs_first: bool,
}

#[derive(Clone, Debug, Serialize, Deserialize, PartialEq)]
pub struct Case {
    pub mods: Vec<Mod>,
    pub user: Mod,
}

fn mod_name(i: usize) -> String {
    format!("m{}", i + 1)
}

/// Make the layout well-formed: exports are definitions; module i imports only from j > i
/// (no cycles); a name is provided by at most one import per module (where two imports would
/// provide the same name the later one is narrowed: which import wins is not specified).
pub fn normalise(c: &Case) -> Case {
    let mut c = c.clone();
    let k = c.mods.len();
    for m in c.mods.iter_mut() {
        for n in 0..3 {
            m.exports[n] = m.exports[n] && m.defs[n];
        }
    }
    let exports: Vec<[bool; 3]> = c.mods.iter().map(|m| m.exports).collect();
    let fix = |m: &mut Mod, lowest: usize| {
        let mut provided = [false; 3];
        let mut out: Vec<Imp> = vec![];
        for imp in m.imports.iter() {
            if imp.from >= k || imp.from < lowest || out.iter().any(|o| o.from == imp.from) {
                continue;
            }
            let ex = exports[imp.from];
            let gives: [bool; 3] = match imp.select {
                None => ex,
                Some(s) => [s[0] && ex[0], s[1] && ex[1], s[2] && ex[2]],
            };
            let clash = (0..3).any(|n| gives[n] && provided[n]);
            let imp2 = if clash {
                // narrow to the names not yet provided (keeps ghost names of a select list)
                let base = imp.select.unwrap_or(ex);
                let s = [base[0] && !provided[0], base[1] && !provided[1], base[2] && !provided[2]];
                if !s.iter().any(|b| *b) {
                    continue;
                }
                Imp { from: imp.from, select: Some(s) }
            } else {
                imp.clone()
            };
            let gives2: [bool; 3] = match imp2.select {
                None => ex,
                Some(s) => [s[0] && ex[0], s[1] && ex[1], s[2] && ex[2]],
            };
            for n in 0..3 {
                provided[n] |= gives2[n];
            }
            out.push(imp2);
        }
        m.imports = out;
    };
    for i in 0..k {
        let mut m = c.mods[i].clone();
        fix(&mut m, i + 1);
        c.mods[i] = m;
    }
    let mut u = c.user.clone();
    fix(&mut u, 0);
    u.exports = [false; 3];
    c.user = u;
    c
}

/// Which module's definition answers `name` called in the context of module `m` (None = user)?
pub fn resolve(c: &Case, m: Option<usize>, name: usize) -> Option<String> {
    let md = match m {
        Some(i) => &c.mods[i],
        None => &c.user,
    };
    if md.defs[name] {
        return Some(match m {
            Some(i) => mod_name(i),
            None => "user".into(),
        });
    }
    for imp in &md.imports {
        let ex = c.mods[imp.from].exports;
        let gives = match imp.select {
            None => ex[name],
            Some(s) => s[name] && ex[name],
        };
        if gives {
            return Some(mod_name(imp.from));
        }
    }
    None
}

// ---------------------------------------------------------------------------------------------
// program text

fn pi_list(sel: &[bool; 3]) -> String {
    let v: Vec<String> = (0..3).filter(|n| sel[*n]).map(|n| format!("{}/1", NAMES[n])).collect();
    format!("[{}]", v.join(","))
}

fn body_text(md: &Mod, tag: &str, dir: &str, is_user: bool) -> String {
    let mut s = String::new();
    let mut defs = String::new();
    for n in 0..3 {
        if md.defs[n] {
            defs.push_str(&format!("{}({}).\n", NAMES[n], tag));
        }
    }
    let mut imports = String::new();
    if !is_user {
        imports.push_str(":- use_module(library(lists)).\n");
    }
    for imp in &md.imports {
        let path = format!("'{}/{}'", dir, mod_name(imp.from));
        match imp.select {
            None => imports.push_str(&format!(":- use_module({path}).\n")),
            Some(sel) => imports.push_str(&format!(":- use_module({path}, {}).\n", pi_list(&sel))),
        }
    }
    if md.meta {
        imports.push_str(&format!(":- use_module('{dir}/mm').\n"));
    }
    if md.dynamic {
        imports.push_str(":- dynamic(d/1).\n");
    }
    if md.defs_first {
        s.push_str(&defs);
        s.push_str(&imports);
    } else {
        s.push_str(&imports);
        s.push_str(&defs);
    }
    for n in NAMES {
        s.push_str(&format!("t_{n}(T) :- {n}(T).\n"));
    }
    for n in NAMES {
        s.push_str(&format!("c_{n}(T) :- G = {n}(T), call(G).\n"));
    }
    for n in NAMES {
        s.push_str(&format!("f_{n}(L) :- findall(T, {n}(T), L).\n"));
    }
    for n in NAMES {
        s.push_str(&format!("l_{n}(T) :- maplist({n}, [T]).\n"));
    }
    if md.meta {
        for n in NAMES {
            s.push_str(&format!("mc_{n}(T) :- mp({n}(T)).\n"));
        }
        for n in NAMES {
            s.push_str(&format!("mt_{n}(T) :- mpt({n}, T).\n"));
        }
    }
    s
}

const MM_TEXT: &str = ":- module(mm, [mp/1, mpt/2]).\n:- meta_predicate(mp(0)).\n:- meta_predicate(mpt(1, ?)).\np(mm).\nq(mm).\nr(mm).\nmp(G) :- call(G).\nmpt(G, T) :- call(G, T).\n";

pub fn files(c: &Case, dir: &str) -> Vec<(String, String)> {
    let mut out = vec![("mm.pl".to_string(), MM_TEXT.to_string())];
    for (i, md) in c.mods.iter().enumerate() {
        let name = mod_name(i);
        let text = format!(":- module({name}, {}).\n{}", pi_list(&md.exports), body_text(md, &name, dir, false));
        out.push((format!("{name}.pl"), text));
    }
    // loader module: loads every module without importing anything into user
    let mut ld = String::from(":- module(ld, []).\n");
    for i in 0..c.mods.len() {
        ld.push_str(&format!(":- use_module('{dir}/{}').\n", mod_name(i)));
    }
    ld.push_str(&format!(":- use_module('{dir}/mm').\n"));
    out.push(("ld.pl".to_string(), ld));
    out.push(("u.pl".to_string(), format!(":- use_module(library(lists)).\n{}", body_text(&c.user, "user", dir, true))));
    out
}

// ---------------------------------------------------------------------------------------------
// generators

fn sel3() -> BoxedStrategy<[bool; 3]> {
    (any::<bool>(), any::<bool>(), any::<bool>()).prop_map(|(a, b, c)| [a, b, c]).boxed()
}

fn mod_strategy(max_from: usize) -> BoxedStrategy<Mod> {
    let imp = (0..max_from.max(1), prop_oneof![2 => Just(None), 3 => sel3().prop_map(Some)]).prop_map(|(from, select)| Imp { from, select });
    (sel3(), prop_oneof![2 => Just([true, true, true]), 2 => sel3(), 1 => Just([false, false, false])], proptest::collection::vec(imp, 0..=3), prop::bool::weighted(0.6), prop::bool::weighted(0.5), prop::bool::weighted(0.12))
        .prop_map(|(defs, exports, imports, meta, dynamic, defs_first)| Mod { defs, exports, imports, meta, dynamic, defs_first })
        .boxed()
}

pub fn case_strategy() -> BoxedStrategy<Case> {
    (2usize..=4)
        .prop_flat_map(|k| (proptest::collection::vec(mod_strategy(k), k), mod_strategy(k)))
        .prop_map(|(mods, user)| normalise(&Case { mods, user }))
        .boxed()
}

// ---------------------------------------------------------------------------------------------
// execution

pub struct Env {
    pub s: Session,
    pub ok: bool,
}

pub fn mk_env() -> Env {
    let mut s = Session::new(&[]);
    let ok = s.consult(C42_PL, "c42");
    Env { s, ok }
}

static DIR_SEQ: AtomicU64 = AtomicU64::new(0);

struct Scratch(std::path::PathBuf);
impl Drop for Scratch {
    fn drop(&mut self) {
        let _ = std::fs::remove_dir_all(&self.0);
    }
}

#[derive(Clone)]
struct Probe {
    goal: String,
    tmpl: String,
    /// Ok(list of instances the template must take) or Err(name) = existence_error(procedure, name/1)
    want: Result<Vec<T>, String>,
    label: String,
    class: String,
}

fn items(t: &T) -> Option<Vec<T>> {
    match t {
        T::Atom(a) if a == "[]" => Some(vec![]),
        T::PList(items, tail) if tail.is_nil() => Some(items.clone()),
        _ => None,
    }
}

fn is_existence_of(f: &T, name: &str) -> bool {
    // existence_error(procedure, name/1) or existence_error(procedure, M:name/1)
    let T::Cmp(e, a) = f else { return false };
    if e != "existence_error" || a.len() != 2 || a[0] != atom("procedure") {
        return false;
    }
    let pi = match &a[1] {
        T::Cmp(c, x) if c == ":" && x.len() == 2 => x[1].clone(),
        other => other.clone(),
    };
    pi == cmp("/", vec![atom(name), crate::term::int(1)])
}

pub fn check(env: &mut Env, case: &Case) -> Verdict {
    if !env.ok {
        return Verdict::Discard("c42.pl rejected".into());
    }
    let c = normalise(case);
    if c.mods.len() < 2 || c.mods.len() > 4 {
        return Verdict::Discard("layout size".into());
    }
    let dirp = std::path::Path::new(&verif_dir()).join("scratch").join(format!("c42-{}-{}", std::process::id(), DIR_SEQ.fetch_add(1, Ordering::SeqCst)));
    if std::fs::create_dir_all(&dirp).is_err() {
        return Verdict::Discard("scratch dir".into());
    }
    let _guard = Scratch(dirp.clone());
    let dir = dirp.to_string_lossy().to_string();
    if dir.contains('\'') || dir.contains('\\') {
        return Verdict::Discard("scratch path".into());
    }
    let fl = files(&c, &dir);
    for (name, text) in &fl {
        if std::fs::write(dirp.join(name), text).is_err() {
            return Verdict::Discard("scratch write".into());
        }
    }
    let layout = || fl.iter().filter(|(n, _)| n != "mm.pl" && n != "ld.pl").map(|(n, t)| format!("--- {n}\n{t}")).collect::<Vec<_>>().join("");
    // load: all modules through the loader module, then the user file
    for f in ["ld", "u"] {
        let o = env.s.ask_once(&format!("consult('{dir}/{f}')"), "[]");
        match &o {
            Outcome::Sols(v) if v.len() == 1 => {}
            Outcome::Panic(m) => return vfail(format!("panic:{}", m.split_whitespace().next().unwrap_or("?")), format!("loading {f}.pl panicked: {m}\n{}", layout())),
            Outcome::Harness(m) => return Verdict::Discard(format!("harness:{}", m.chars().take(40).collect::<String>())),
            other => return vfail(format!("load-failed:{f}"), format!("consult of {f}.pl gave {}\n{}", other.short(), layout())),
        }
    }
    // probes
    let mut probes: Vec<Probe> = vec![];
    let k = c.mods.len();
    let ctxs: Vec<(Option<usize>, String)> = (0..k).map(|i| (Some(i), mod_name(i))).chain(std::iter::once((None, "user".to_string()))).collect();
    for (ctx, mname) in &ctxs {
        let md = match ctx {
            Some(i) => &c.mods[*i],
            None => &c.user,
        };
        for (n, name) in NAMES.iter().enumerate() {
            let r = resolve(&c, *ctx, n);
            let local = md.defs[n];
            // the module whose own definition must answer; its definition is exposed to the known
            // "local definition before a later import of the same name" finding when it is written
            // before an import that provides the name
            let provider: Option<&Mod> = match &r {
                None => None,
                Some(t) if t == "user" => Some(&c.user),
                Some(t) => c.mods.iter().enumerate().find(|(i, _)| mod_name(*i) == *t).map(|(_, m)| m),
            };
            let shadowing = |m: &Mod| m.imports.iter().any(|imp| c.mods[imp.from].exports[n] && imp.select.map(|s| s[n]).unwrap_or(true));
            let exposed = provider.map(|pm| pm.defs_first && shadowing(pm)).unwrap_or(false);
            let how = if exposed {
                "local-before-import"
            } else if local {
                if shadowing(md) {
                    "local-shadows-import"
                } else {
                    "local"
                }
            } else if r.is_some() {
                "imported"
            } else if md.imports.iter().any(|imp| c.mods[imp.from].exports[n]) {
                "exported-but-not-in-import-list"
            } else if md.imports.iter().any(|imp| c.mods[imp.from].defs[n]) {
                "defined-but-not-exported"
            } else {
                "undefined"
            };
            let single = |tag: &Option<String>| -> Result<Vec<T>, String> {
                match tag {
                    Some(t) => Ok(vec![atom(t)]),
                    None => Err(name.to_string()),
                }
            };
            let mut add = |form: &str, goal: String, want: Result<Vec<T>, String>| {
                probes.push(Probe { goal, tmpl: "T".into(), want, label: format!("{form} {name}/1 in {mname}"), class: format!("{form}:{how}") });
            };
            add("qualified", format!("':'({mname},{name}(T))"), single(&r));
            add("static", format!("':'({mname},t_{name}(T))"), single(&r));
            add("call1", format!("':'({mname},c_{name}(T))"), single(&r));
            add(
                "findall",
                format!("':'({mname},f_{name}(T))"),
                match &r {
                    Some(t) => Ok(vec![list(vec![atom(t)])]),
                    None => Err(name.to_string()),
                },
            );
            add("maplist", format!("':'({mname},l_{name}(T))"), single(&r));
            if md.meta {
                add("meta-goal", format!("':'({mname},mc_{name}(T))"), single(&r));
                add("meta-closure", format!("':'({mname},mt_{name}(T))"), single(&r));
            }
        }
    }
    // same-name predicates are independent: assert into each dynamic d/1, then read each
    let dyns: Vec<String> = ctxs.iter().filter(|(ctx, _)| match ctx { Some(i) => c.mods[*i].dynamic, None => c.user.dynamic }).map(|(_, n)| n.clone()).collect();
    for m in &dyns {
        probes.push(Probe { goal: format!("assertz(':'({m},d({m})))"), tmpl: "x".into(), want: Ok(vec![atom("x")]), label: format!("assertz({m}:d({m}))"), class: "dynamic:assert".into() });
    }
    for m in &dyns {
        probes.push(Probe { goal: format!("':'({m},d(T))"), tmpl: "T".into(), want: Ok(vec![atom(m)]), label: format!("{m}:d(T) after asserting into every module's d/1"), class: "dynamic:read".into() });
    }
    // run them all in one query (each probe gets its own variable)
    let glist: Vec<String> = probes.iter().enumerate().map(|(i, p)| format!("g({},{})", p.goal.replace("(T)", &format!("(T{i})")), if p.tmpl == "T" { format!("T{i}") } else { p.tmpl.clone() })).collect();
    let o = env.s.ask_once(&format!("c42_all([{}], Zout)", glist.join(",")), "Zout");
    let out = match &o {
        Outcome::Sols(v) if v.len() == 1 => v[0].clone(),
        Outcome::Panic(m) => return vfail(format!("panic:{}", m.split_whitespace().next().unwrap_or("?")), format!("probing panicked: {m}\n{}", layout())),
        Outcome::Harness(m) => return Verdict::Discard(format!("harness:{}", m.chars().take(40).collect::<String>())),
        other => return vfail("driver:unexpected", format!("c42_all gave {}", other.short())),
    };
    let Some(rs) = items(&out) else { return Verdict::Discard("harness:result-shape".into()) };
    if rs.len() != probes.len() {
        return Verdict::Discard("harness:result-length".into());
    }
    let mut classes: Vec<String> = vec![];
    for (p, r) in probes.iter().zip(&rs) {
        let ok = match (&p.want, r) {
            (Ok(w), T::Cmp(f, a)) if f == "ok" && a.len() == 1 => match items(&a[0]) {
                Some(g) => g.len() == w.len() && g.iter().zip(w).all(|(x, y)| x.norm().eq_struct(&y.norm())),
                None => false,
            },
            (Err(name), T::Cmp(f, a)) if f == "ex" && a.len() == 1 => is_existence_of(&a[0], name),
            _ => false,
        };
        if !ok {
            let want = match &p.want {
                Ok(w) => format!("answers {}", w.iter().map(|t| t.text()).collect::<Vec<_>>().join(",")),
                Err(n) => format!("existence_error(procedure, {n}/1)"),
            };
            let got_kind = match r {
                T::Cmp(f, _) if f == "ok" => {
                    if p.want.is_err() {
                        "answered-should-not-exist"
                    } else {
                        "wrong-definition"
                    }
                }
                T::Cmp(f, _) if f == "ex" => {
                    if p.want.is_ok() {
                        "error-should-answer"
                    } else {
                        "wrong-error"
                    }
                }
                _ => "other",
            };
            return vfail(format!("{got_kind}:{}", p.class), format!("{}: got {}; expected {want}\n{}", p.label, r.text(), layout()));
        }
        if !classes.contains(&p.class) {
            classes.push(p.class.clone());
        }
    }
    // non-trivial: a name defined in >= 2 modules and imported somewhere, or a meta-call across modules
    let mut nontrivial = false;
    for n in 0..3 {
        let ndef = c.mods.iter().filter(|m| m.defs[n]).count() + c.user.defs[n] as usize;
        let imported = c.mods.iter().chain(std::iter::once(&c.user)).any(|m| m.imports.iter().any(|imp| c.mods[imp.from].exports[n] && imp.select.map(|s| s[n]).unwrap_or(true)));
        if ndef >= 2 && imported {
            nontrivial = true;
        }
    }
    if c.mods.iter().any(|m| m.meta) || c.user.meta {
        nontrivial = true;
    }
    classes.push(format!("modules-{k}"));
    let cls: Vec<&str> = classes.iter().map(|s| s.as_str()).collect();
    Verdict::pass(nontrivial, &cls)
}

pub struct C42;

impl Prop for C42 {
    fn id(&self) -> &'static str {
        "C42"
    }
    fn rule(&self) -> &'static str {
        "layouts of 2..4 module files m1..mK plus a meta-predicate module and a user file, written to a scratch directory and loaded into a fresh machine: every module defines a random subset of p/1,q/1,r/1 (answering its own name), exports a subset of its definitions (all, some, none), imports from higher-numbered modules with use_module/1 or use_module/2 (import lists may name unexported or undefined predicates), may define a name it also imports (before or after the import), may declare d/1 dynamic; for every module (and user) and every name the call is made qualified (M:G), from a clause of the module (static call, call/1, findall/3, maplist/2) and through imported meta-predicates with a goal argument and with a closure argument; the resolver model (own definition, else the one import that provides the name, else existence_error) decides the expected answer; asserting into every module's d/1 must show in that module only; layouts where two imports would provide the same name are narrowed by construction (not specified which wins); non-trivial = a name defined in >= 2 modules and imported somewhere, or a meta-call across modules; distinct by case encoding"
    }
    fn assumptions(&self) -> Vec<String> {
        vec![
            "files are written under VERIF_ROOT/scratch and loaded with consult/1 and use_module/1,2 by absolute path".into(),
            "an existence error may name the predicate as p/1 or M:p/1".into(),
            "a qualified call of a meta-predicate from the top level (M:mp(G)) is not probed: the statement does not say whose module the argument then runs in".into(),
        ]
    }
    fn run_shard(&self, cfg: &ShardCfg) -> ShardResult {
        let mut d = Driver::new(cfg, "C42");
        let n = cfg.share(cfg.tier.pick(2000, 80_000));
        d.run("layout", 0, n, 1, case_strategy(), &mk_env, &check);
        d.finish()
    }
    fn replay(&self, _kind: &str, case: &Value) -> Verdict {
        replay_case::<Case, Env>(case, &mk_env, &check)
    }
}
