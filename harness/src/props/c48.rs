//! C48 — File-system predicates (library(files)) reflect and change the real file system.
//!
//! A case is a history of operations inside a fresh scratch directory that is also the working
//! directory of the process while the case runs (so relative names, including the empty name,
//! resolve inside it). Before every step the real directory tree is read with std::fs (the
//! "before" snapshot); the step's outcome is predicted from that snapshot; after the step the
//! tree is read again and must equal the predicted tree (files compared byte by byte).
//!
//! Accepted outcomes where library(files) documents nothing more precise than "succeeds if ...":
//! an operation that cannot be carried out (missing parent, target is a directory, directory not
//! empty, name already taken, empty name) may fail or raise any error, but must leave the tree
//! unchanged. Documented errors are asserted exactly (Formal only): existence_error(file|directory,
//! Path) from file_must_exist / directory_must_exist, and for ill-typed paths an
//! instantiation_error (unbound, partial list) or a type_error (anything else; must_be(chars, _)
//! reports the inner type that failed, so the type name and culprit are not compared).
use crate::engine::*;
use crate::gen::*;
use crate::session::{Outcome, Session};
use crate::shared::enc2::decode_t;
use crate::shared::scratch::Scratch;
use crate::term::{self, T};
use proptest::prelude::*;
use serde::{Deserialize, Serialize};
use serde_json::Value;
use std::collections::BTreeMap;
use std::path::{Path, PathBuf};

pub const C48_PL: &str = include_str!("../../prolog/c48.pl");

/// names relative to the scratch root; index 0 is the empty name
const NAMES: &[&str] = &[
    "", "a", "b.txt", "a b", "\u{e9}", "e\u{301}", ".hid", "d", "d/x", "d/e", "d/e/f", "日本", "c", "d/\u{e9}", "nope/z", "LONG", "d/.h", "a/b", "😀.txt", "d/e/f/g/h",
];

fn name_text(i: u8) -> String {
    let n = NAMES[i as usize % NAMES.len()];
    if n == "LONG" {
        "x".repeat(200)
    } else {
        n.to_string()
    }
}

#[derive(Clone, Debug, Serialize, Deserialize)]
pub enum Op {
    /// harness-side: create / overwrite a file of this size (ignored when impossible)
    Touch(u8, u16),
    FileExists(u8),
    DirExists(u8),
    FileSize(u8),
    /// file_size with the size argument bound: true = the right size
    FileSizeIs(u8, bool),
    DirFiles(u8),
    MkDir(u8),
    MkDirPath(u8),
    DeleteFile(u8),
    DeleteDir(u8),
    Rename(u8, u8),
    Copy(u8, u8),
    /// path_canonical of the name decorated with ./ and d/../ components
    Canonical(u8, u8),
    Segments(String),
    Join(Vec<String>),
    /// ill-typed path: predicate index, kind of ill-typed term
    Bad(u8, u8),
    /// ill-typed second argument of rename_file / file_copy with this (first) name
    Bad2(bool, u8, u8),
}

#[derive(Clone, Debug, Serialize, Deserialize)]
pub struct Case {
    pub ops: Vec<Op>,
    /// paths are given relative to the working directory (true) or absolute (false), per step parity
    pub relative: Vec<bool>,
}

const BAD_PREDS: &[&str] = &["fe", "de", "fs", "df", "md", "mdp", "rmf", "rmd", "mv", "cp", "canon", "seg"];

fn seg_text() -> BoxedStrategy<String> {
    prop_oneof![
        3 => any::<u16>().prop_map(|k| pick(&["a", "b.txt", "", "é", "..", ".", "a b", "日本", "d"], k).to_string()),
        1 => "[a-z.]{0,4}".prop_map(|s| s),
    ]
    .boxed()
}

fn op_strategy() -> BoxedStrategy<Op> {
    let n = NAMES.len() as u8;
    prop_oneof![
        8 => (0..n, 0u16..300).prop_map(|(a, s)| Op::Touch(a, s)),
        3 => (0..n).prop_map(Op::FileExists),
        3 => (0..n).prop_map(Op::DirExists),
        3 => (0..n).prop_map(Op::FileSize),
        1 => (0..n, any::<bool>()).prop_map(|(a, b)| Op::FileSizeIs(a, b)),
        4 => (0..n).prop_map(Op::DirFiles),
        5 => (0..n).prop_map(Op::MkDir),
        4 => (0..n).prop_map(Op::MkDirPath),
        4 => (0..n).prop_map(Op::DeleteFile),
        4 => (0..n).prop_map(Op::DeleteDir),
        6 => (0..n, 0..n).prop_map(|(a, b)| Op::Rename(a, b)),
        6 => (0..n, 0..n).prop_map(|(a, b)| Op::Copy(a, b)),
        3 => (0..n, 0u8..4).prop_map(|(a, d)| Op::Canonical(a, d)),
        2 => proptest::collection::vec(seg_text(), 0..=4).prop_map(|v| Op::Segments(v.join("/"))),
        2 => proptest::collection::vec(seg_text().prop_filter("no separator", |s| !s.contains('/')), 0..=4).prop_map(Op::Join),
        2 => (0u8..BAD_PREDS.len() as u8, 0u8..8).prop_map(|(p, k)| Op::Bad(p, k)),
        1 => (any::<bool>(), 0..n, 0u8..8).prop_map(|(mv, a, k)| Op::Bad2(mv, a, k)),
    ]
    .boxed()
}

pub fn case_strategy() -> BoxedStrategy<Case> {
    (proptest::collection::vec(op_strategy(), 1..=30), proptest::collection::vec(any::<bool>(), 30)).prop_map(|(ops, relative)| Case { ops, relative }).boxed()
}

// ---------------------------------------------------------------------------------------------
// the real tree

#[derive(Clone, Debug, PartialEq)]
pub enum Node {
    Dir,
    File(Vec<u8>),
    Other,
}

pub type Tree = BTreeMap<String, Node>;

fn walk(root: &Path, rel: &str, out: &mut Tree) -> std::io::Result<()> {
    let dir: PathBuf = if rel.is_empty() { root.to_path_buf() } else { root.join(rel) };
    for e in std::fs::read_dir(&dir)? {
        let e = e?;
        let name = e.file_name().to_string_lossy().to_string();
        let r = if rel.is_empty() { name.clone() } else { format!("{rel}/{name}") };
        let md = std::fs::symlink_metadata(e.path())?;
        if md.is_dir() {
            out.insert(r.clone(), Node::Dir);
            walk(root, &r, out)?;
        } else if md.is_file() {
            out.insert(r, Node::File(std::fs::read(e.path())?));
        } else {
            out.insert(r, Node::Other);
        }
    }
    Ok(())
}

fn snapshot(root: &Path) -> Result<Tree, String> {
    let mut t = Tree::new();
    walk(root, "", &mut t).map_err(|e| format!("cannot walk scratch tree: {e}"))?;
    Ok(t)
}

fn parent_of(rel: &str) -> Option<&str> {
    rel.rfind('/').map(|i| &rel[..i])
}

/// is the parent of `rel` an existing directory (the root counts)
fn parent_is_dir(t: &Tree, rel: &str) -> bool {
    match parent_of(rel) {
        None => true,
        Some(p) => matches!(t.get(p), Some(Node::Dir)),
    }
}

fn children(t: &Tree, rel: &str) -> Vec<String> {
    let prefix = if rel.is_empty() { String::new() } else { format!("{rel}/") };
    t.keys().filter(|k| k.starts_with(&prefix) && !k[prefix.len()..].contains('/') && k.len() > prefix.len()).map(|k| k[prefix.len()..].to_string()).collect()
}

fn tree_brief(t: &Tree) -> String {
    t.iter()
        .map(|(k, v)| match v {
            Node::Dir => format!("{k}/"),
            Node::File(b) => format!("{k}({})", b.len()),
            Node::Other => format!("{k}?"),
        })
        .collect::<Vec<_>>()
        .join(" ")
}

// ---------------------------------------------------------------------------------------------

pub struct Env {
    pub s: Session,
}

pub fn mk_env() -> Env {
    let mut s = Session::new(&["files"]);
    if !s.consult(C48_PL, "c48") {
        panic!("c48.pl rejected");
    }
    Env { s }
}

#[derive(Debug)]
enum Expect {
    /// ok(Value) exactly
    Ok(T),
    /// ok(List) with the elements in any order
    OkSet(Vec<T>),
    Failed,
    /// ex(error(Formal, _)) exactly
    Err(T),
    /// ex(error(type_error(_, _), _))
    TypeErr,
    /// the operation cannot be carried out: failure or any error
    Refused,
    /// success or refusal
    OkOrRefused,
}

fn judge(exp: &Expect, got: &T) -> Result<(), String> {
    let is_ex = |t: &T| matches!(t, T::Cmp(n, a) if n == "ex" && a.len() == 1);
    let is_failed = |t: &T| matches!(t, T::Atom(a) if a == "failed");
    let ok_val = |t: &T| match t {
        T::Cmp(n, a) if n == "ok" && a.len() == 1 => Some(a[0].clone()),
        _ => None,
    };
    let formal = |t: &T| match t {
        T::Cmp(n, a) if n == "ex" && a.len() == 1 => match &a[0] {
            T::Cmp(e, ea) if e == "error" && ea.len() == 2 => Some(ea[0].clone()),
            _ => None,
        },
        _ => None,
    };
    match exp {
        Expect::Ok(v) => match ok_val(got) {
            Some(g) if g.identical(v) => Ok(()),
            _ => Err(format!("expected ok({}) got {}", v.text(), got.text())),
        },
        Expect::OkSet(items) => match ok_val(got).map(|g| g.norm()) {
            Some(T::Atom(a)) if a == "[]" && items.is_empty() => Ok(()),
            Some(T::PList(gi, tail)) if tail.is_nil() => {
                let mut a: Vec<String> = gi.iter().map(|x| x.norm().text()).collect();
                let mut b: Vec<String> = items.iter().map(|x| x.norm().text()).collect();
                a.sort();
                b.sort();
                if a == b {
                    Ok(())
                } else {
                    Err(format!("expected the set {b:?} got {a:?}"))
                }
            }
            _ => Err(format!("expected a list of {} names got {}", items.len(), got.text())),
        },
        Expect::Failed => {
            if is_failed(got) {
                Ok(())
            } else {
                Err(format!("expected failure got {}", got.text()))
            }
        }
        Expect::Err(f) => match formal(got) {
            Some(g) if g.identical(f) => Ok(()),
            _ => Err(format!("expected error {} got {}", f.text(), got.text())),
        },
        Expect::TypeErr => match formal(got) {
            Some(T::Cmp(n, a)) if n == "type_error" && a.len() == 2 => Ok(()),
            _ => Err(format!("expected a type_error got {}", got.text())),
        },
        Expect::Refused => {
            if is_failed(got) || is_ex(got) {
                Ok(())
            } else {
                Err(format!("expected failure or an error got {}", got.text()))
            }
        }
        Expect::OkOrRefused => Ok(()),
    }
}

fn chars(s: &str) -> T {
    T::Str(s.to_string())
}

fn existence(kind: &str, path: &str) -> T {
    term::cmp("existence_error", vec![term::atom(kind), chars(path)])
}

pub fn check(env: &mut Env, c: &Case) -> Verdict {
    let sc = Scratch::new("c48");
    let root = sc.dir.clone();
    let root_s = root.to_string_lossy().to_string();
    let home = std::env::current_dir().ok();
    if std::env::set_current_dir(&root).is_err() {
        return Verdict::Discard("cannot-chdir".into());
    }
    let v = run_history(env, c, &root, &root_s);
    // leave the scratch directory before it is removed
    let back = home.unwrap_or_else(|| PathBuf::from(crate::engine::verif_dir()));
    let _ = std::env::set_current_dir(&back);
    v
}

fn run_history(env: &mut Env, c: &Case, root: &Path, root_s: &str) -> Verdict {
    let mut classes: Vec<String> = vec![];
    let mut mutated_existing = false;
    let mut non_ascii = false;
    let mut log: Vec<String> = vec![];
    for (i, op) in c.ops.iter().enumerate() {
        let rel_mode = c.relative.get(i).cloned().unwrap_or(false);
        let p = |name: &str| -> String {
            if rel_mode {
                name.to_string()
            } else if name.is_empty() {
                // the empty name has no absolute spelling
                String::new()
            } else {
                format!("{root_s}/{name}")
            }
        };
        let before = match snapshot(root) {
            Ok(t) => t,
            Err(e) => return Verdict::Discard(format!("harness:{e}")),
        };
        let mut after = before.clone();
        let kind = |t: &Tree, n: &str| -> Option<Node> {
            if n.is_empty() {
                None
            } else {
                t.get(n).cloned()
            }
        };
        let (spec, exp, label): (String, Expect, &str) = match op {
            Op::Touch(a, size) => {
                let n = name_text(*a);
                if !n.is_empty() && parent_is_dir(&before, &n) && !matches!(kind(&before, &n), Some(Node::Dir)) {
                    let content: Vec<u8> = (0..*size).map(|k| (k as u8).wrapping_mul(31).wrapping_add(i as u8)).collect();
                    if std::fs::write(root.join(&n), &content).is_err() {
                        return Verdict::Discard("harness:touch-failed".into());
                    }
                    log.push(format!("touch {n:?} {size}"));
                }
                continue;
            }
            Op::FileExists(a) => {
                let n = name_text(*a);
                let e = if matches!(kind(&before, &n), Some(Node::File(_))) { Expect::Ok(term::atom("true")) } else { Expect::Failed };
                (format!("fe({})", chars(&p(&n)).text()), e, "file_exists")
            }
            Op::DirExists(a) => {
                let n = name_text(*a);
                let e = if matches!(kind(&before, &n), Some(Node::Dir)) { Expect::Ok(term::atom("true")) } else { Expect::Failed };
                (format!("de({})", chars(&p(&n)).text()), e, "directory_exists")
            }
            Op::FileSize(a) => {
                let n = name_text(*a);
                let e = match kind(&before, &n) {
                    Some(Node::File(b)) => Expect::Ok(term::int(b.len() as u64)),
                    _ => Expect::Err(existence("file", &p(&n))),
                };
                (format!("fs({})", chars(&p(&n)).text()), e, "file_size")
            }
            Op::FileSizeIs(a, right) => {
                let n = name_text(*a);
                let (sz, e) = match kind(&before, &n) {
                    Some(Node::File(b)) => {
                        let s = if *right { b.len() as u64 } else { b.len() as u64 + 1 };
                        (s, if *right { Expect::Ok(term::atom("true")) } else { Expect::Failed })
                    }
                    _ => (0, Expect::Err(existence("file", &p(&n)))),
                };
                (format!("fs_is({}, {sz})", chars(&p(&n)).text()), e, "file_size")
            }
            Op::DirFiles(a) => {
                let n = name_text(*a);
                let is_root_rel = n.is_empty();
                let e = if is_root_rel {
                    // the empty name is not a directory name
                    Expect::Refused
                } else {
                    match kind(&before, &n) {
                        Some(Node::Dir) => Expect::OkSet(children(&before, &n).iter().map(|s| chars(s)).collect()),
                        _ => Expect::Refused,
                    }
                };
                (format!("df({})", chars(&p(&n)).text()), e, "directory_files")
            }
            Op::MkDir(a) => {
                let n = name_text(*a);
                let e = if !n.is_empty() && parent_is_dir(&before, &n) && kind(&before, &n).is_none() {
                    after.insert(n.clone(), Node::Dir);
                    Expect::Ok(term::atom("true"))
                } else {
                    Expect::Refused
                };
                (format!("md({})", chars(&p(&n)).text()), e, "make_directory")
            }
            Op::MkDirPath(a) => {
                let n = name_text(*a);
                let mut ok = !n.is_empty();
                let mut acc = String::new();
                let mut add = vec![];
                if ok {
                    for comp in n.split('/') {
                        if !acc.is_empty() {
                            acc.push('/');
                        }
                        acc.push_str(comp);
                        match kind(&before, &acc) {
                            Some(Node::Dir) => {}
                            None => add.push(acc.clone()),
                            _ => {
                                ok = false;
                                break;
                            }
                        }
                    }
                }
                let e = if ok {
                    for d in add {
                        after.insert(d, Node::Dir);
                    }
                    Expect::Ok(term::atom("true"))
                } else {
                    Expect::Refused
                };
                (format!("mdp({})", chars(&p(&n)).text()), e, "make_directory_path")
            }
            Op::DeleteFile(a) => {
                let n = name_text(*a);
                let e = match kind(&before, &n) {
                    Some(Node::File(_)) => {
                        after.remove(&n);
                        mutated_existing = true;
                        Expect::Ok(term::atom("true"))
                    }
                    _ => Expect::Err(existence("file", &p(&n))),
                };
                (format!("rmf({})", chars(&p(&n)).text()), e, "delete_file")
            }
            Op::DeleteDir(a) => {
                let n = name_text(*a);
                let e = match kind(&before, &n) {
                    Some(Node::Dir) => {
                        if children(&before, &n).is_empty() {
                            after.remove(&n);
                            mutated_existing = true;
                            Expect::Ok(term::atom("true"))
                        } else {
                            Expect::Refused
                        }
                    }
                    _ => Expect::Err(existence("directory", &p(&n))),
                };
                (format!("rmd({})", chars(&p(&n)).text()), e, "delete_directory")
            }
            Op::Rename(a, b) | Op::Copy(a, b) => {
                let is_mv = matches!(op, Op::Rename(..));
                let (na, nb) = (name_text(*a), name_text(*b));
                let e = match kind(&before, &na) {
                    Some(Node::File(content)) => {
                        if na == nb {
                            // onto itself: nothing may change (rename is a no-op, a copy must not
                            // destroy the file); success or refusal are both acceptable
                            if is_mv {
                                Expect::Ok(term::atom("true"))
                            } else {
                                Expect::OkOrRefused
                            }
                        } else if nb.is_empty() || !parent_is_dir(&before, &nb) || matches!(kind(&before, &nb), Some(Node::Dir)) {
                            Expect::Refused
                        } else {
                            after.insert(nb.clone(), Node::File(content));
                            if is_mv {
                                after.remove(&na);
                            }
                            mutated_existing = true;
                            Expect::Ok(term::atom("true"))
                        }
                    }
                    _ => Expect::Err(existence("file", &p(&na))),
                };
                let f = if is_mv { "mv" } else { "cp" };
                (format!("{f}({}, {})", chars(&p(&na)).text(), chars(&p(&nb)).text()), e, if is_mv { "rename_file" } else { "file_copy" })
            }
            Op::Canonical(a, deco) => {
                let n = name_text(*a);
                let base = p(&n);
                let path = match deco % 4 {
                    0 => base,
                    1 => {
                        if rel_mode {
                            format!("./{n}")
                        } else {
                            format!("{root_s}/./{n}")
                        }
                    }
                    2 => {
                        if rel_mode {
                            format!("d/../{n}")
                        } else {
                            format!("{root_s}/d/../{n}")
                        }
                    }
                    _ => format!("{base}/"),
                };
                let e = match std::fs::canonicalize(&path) {
                    Ok(cn) => match cn.to_str() {
                        Some(s) => Expect::Ok(chars(s)),
                        None => return Verdict::Discard("harness:non-utf8-canonical".into()),
                    },
                    Err(_) => Expect::Failed,
                };
                (format!("canon({})", chars(&path).text()), e, "path_canonical")
            }
            Op::Segments(path) => {
                let segs: Vec<T> = path.split('/').map(chars).collect();
                (format!("seg({})", chars(path).text()), Expect::Ok(term::list(segs)), "path_segments")
            }
            Op::Join(segs) => {
                let l = term::list(segs.iter().map(|s| chars(s)).collect());
                (format!("join({})", l.text()), Expect::Ok(chars(&segs.join("/"))), "path_segments")
            }
            Op::Bad(pi, k) => {
                let pred = BAD_PREDS[*pi as usize % BAD_PREDS.len()];
                let k = k % 8;
                let e = match k {
                    0 | 4 => Expect::Err(term::atom("instantiation_error")),
                    _ => Expect::TypeErr,
                };
                (format!("bad({pred}, {k})"), e, "ill-typed")
            }
            Op::Bad2(mv, a, k) => {
                let n = name_text(*a);
                let k = k % 8;
                let e = match kind(&before, &n) {
                    Some(Node::File(_)) => match k {
                        0 | 4 => Expect::Err(term::atom("instantiation_error")),
                        _ => Expect::TypeErr,
                    },
                    _ => Expect::Err(existence("file", &p(&n))),
                };
                (format!("bad2({}, {}, {k})", if *mv { "mv" } else { "cp" }, chars(&p(&n)).text()), e, "ill-typed")
            }
        };
        if !spec.is_ascii() {
            non_ascii = true;
        }
        classes.push(format!("op:{label}"));
        log.push(spec.replace(root_s, "$R"));
        let o = env.s.ask_once(&format!("c48_do({spec}, Enc)"), "Enc");
        let what = || format!("history {:?} in tree [{}]", log, tree_brief(&before));
        let got = match &o {
            Outcome::Panic(m) => return Verdict::fail(format!("panic:{}", m.split_whitespace().next().unwrap_or("?")), format!("{}: panicked: {m}", what())),
            Outcome::Sols(v) if v.len() == 1 => match decode_t(&v[0]) {
                Ok(t) => t.norm(),
                Err(e) => return Verdict::Discard(format!("harness:{}", e.chars().take(40).collect::<String>())),
            },
            other => return Verdict::fail(format!("escaped:{label}"), format!("{}: {}", what(), other.short())),
        };
        if let Err(why) = judge(&exp, &got) {
            let cls = match &exp {
                Expect::Ok(_) | Expect::OkSet(_) => "should-succeed",
                Expect::Failed => "should-fail",
                Expect::Err(_) | Expect::TypeErr => "wrong-error",
                _ => "should-be-refused",
            };
            let cls = if matches!(op, Op::MkDirPath(a) if name_text(*a).is_empty()) { "empty-name-accepted" } else { cls };
            return Verdict::fail(format!("outcome:{label}:{cls}"), format!("{}: step {i}: {why}", what()));
        }
        // a refused operation and every query must leave the tree as predicted
        let now = match snapshot(root) {
            Ok(t) => t,
            Err(e) => return Verdict::Discard(format!("harness:{e}")),
        };
        // an accepted refusal of an operation that was expected to succeed cannot happen (judge
        // demanded ok); for OkOrRefused nothing changes either way
        if now != after {
            let missing: Vec<&String> = after.keys().filter(|k| !now.contains_key(*k)).collect();
            let extra: Vec<&String> = now.keys().filter(|k| !after.contains_key(*k)).collect();
            let changed: Vec<&String> = after.keys().filter(|k| now.get(*k).is_some() && now.get(*k) != after.get(*k)).collect();
            let onto_itself = matches!(op, Op::Copy(a, b) if name_text(*a) == name_text(*b));
            let cls = if onto_itself && extra.is_empty() && missing.is_empty() {
                "onto-itself-destroys-content"
            } else if !extra.is_empty() {
                "unexpected-entry"
            } else if !missing.is_empty() {
                "entry-missing"
            } else {
                "content-changed"
            };
            return Verdict::fail(format!("tree:{label}:{cls}"), format!("{}: step {i}: tree is [{}] expected [{}] (missing {missing:?}, unexpected {extra:?}, changed {changed:?})", what(), tree_brief(&now), tree_brief(&after)));
        }
    }
    classes.sort();
    classes.dedup();
    if non_ascii {
        classes.push("non-ascii-name".into());
    }
    if mutated_existing {
        classes.push("changed-existing-entry".into());
    }
    let cl: Vec<&str> = classes.iter().map(|s| s.as_str()).collect();
    Verdict::pass(mutated_existing && non_ascii, &cl)
}

pub struct C48;

impl Prop for C48 {
    fn id(&self) -> &'static str {
        "C48"
    }
    fn rule(&self) -> &'static str {
        "histories of 1-30 steps inside a fresh scratch directory (also the working directory; paths given absolute or relative per step) over 20 names (empty, ASCII, blank inside, NFC/NFD pair, leading dot, 200-byte name, CJK, emoji, nested up to 5 levels, missing parent): harness-side file creation with distinct contents, file_exists, directory_exists, file_size (free and bound size), directory_files, make_directory, make_directory_path, delete_file, delete_directory, rename_file, file_copy (also onto itself / onto directories / into missing parents), path_canonical with ./, d/../ and trailing-slash decorations, path_segments in both directions, and ill-typed path arguments (unbound, atom, integer, float, list of integers, partial list, compound, list with a non-character) for every predicate; before each step the real tree is read with std::fs, the outcome is predicted from it, after the step the tree must equal the predicted tree byte by byte; non-trivial = a history that renames/copies/deletes an existing entry and uses a non-ASCII name; distinct by case encoding"
    }
    fn assumptions(&self) -> Vec<String> {
        vec!["std::fs (read_dir, metadata, read, canonicalize) reports the state of the file system".into(), "no other process touches the per-case scratch directory".into()]
    }
    fn run_shard(&self, cfg: &ShardCfg) -> ShardResult {
        let mut d = Driver::new(cfg, "C48");
        let n = cfg.share(cfg.tier.pick(4_000, 200_000));
        d.run("history", 0, n, 200, case_strategy(), &mk_env, &check);
        d.finish()
    }
    fn replay(&self, _kind: &str, case: &Value) -> Verdict {
        replay_case::<Case, Env>(case, &mk_env, &check)
    }
}
