//! C17 — Malformed input never crashes or desynchronises the reader.
//!
//! A case is a text of 1-4 clauses, each ended by " .\n"; some clauses are valid (generated terms
//! in canonical notation or operator-notation clauses from a fixed corpus), the others are
//! mutations of valid clauses, token soup or random Unicode. The text is written to a file and
//! read clause by clause with read_term/3 inside Prolog (prolog/c17.pl), twice.
//! Oracles: (1) every read gives a term, a syntax_error or end of file — never another error, a
//! panic, a hang; the number of reads is bounded (progress). (2) resynchronisation: when no
//! malformed clause contains a quote character, `%` or `/*` (the only things that can swallow an
//! end token), the valid clauses must come back exactly (compared with reading each alone through
//! read_term_from_chars/3): those before the first malformed clause first, those after the last
//! malformed clause last, all of them in order. (3) the second pass over the file gives the same
//! results as the first.
//! Hangs: cases run on a session thread; if one does not answer within 30 s it is re-run alone in
//! a child process with 300 s; only a child that also times out is reported (`hang:read_term`).
use crate::engine::*;
use crate::gen::{pick, term_strategy, TermCfg};
use crate::session::{Outcome, Session};
use crate::term::T;
use proptest::prelude::*;
use serde::{Deserialize, Serialize};
use serde_json::Value;
use std::path::PathBuf;
use std::sync::atomic::{AtomicBool, AtomicU64, Ordering};
use std::sync::mpsc::{channel, Receiver, RecvTimeoutError, Sender};
use std::time::Duration;

pub const C17_PL: &str = include_str!("../../prolog/c17.pl");

// ---------------------------------------------------------------------------------------------
// case

#[derive(Clone, Debug, Serialize, Deserialize)]
pub enum Src {
    Term(T),
    Corpus(u16),
    /// token indices into SOUP, bit i of the mask = a space after token i
    Soup(Vec<u16>, u32),
    Raw(String),
}

#[derive(Clone, Debug, Serialize, Deserialize)]
pub enum Mut {
    Delete(u16),
    Dup(u16),
    Swap(u16),
    /// insert NASTY[k] at a character position
    Insert(u16, u16),
    Truncate(u16),
    /// insert CONTROL[k] (NUL and other control characters; rare, see known findings)
    InsertCtl(u16, u16),
    TokDelete(u16),
    TokDup(u16),
    TokSwap(u16),
}

#[derive(Clone, Debug, Serialize, Deserialize)]
pub struct Clause {
    pub src: Src,
    pub muts: Vec<Mut>,
}

#[derive(Clone, Debug, Serialize, Deserialize)]
pub struct Case {
    pub clauses: Vec<Clause>,
    /// the text stops right after the body of the last clause (no end token, no newline):
    /// end of file in the middle of a clause, possibly in the middle of a token
    #[serde(default)]
    pub cut_end: bool,
}

impl Case {
    pub fn text(&self) -> String {
        let mut s = String::new();
        let last = self.clauses.len().saturating_sub(1);
        for (i, cl) in self.clauses.iter().enumerate() {
            if self.cut_end && i == last {
                s.push_str(&cl.body());
            } else {
                s.push_str(&cl.text());
            }
        }
        s
    }
}

/// valid clause bodies in operator notation (no end token; none contains the atom end_of_file)
pub const CORPUS: &[&str] = &[
    "foo(X) :- bar(X, Y), \\+ baz(Y) ; true",
    "X = [a,b|T]",
    "a --> b, {c}, [d]",
    "X is 1 + 2 * 3 - 4 / 5",
    "- - a",
    "- (1)",
    "-(1)",
    "- 1",
    "f(:-)",
    "[(:-)|T]",
    "{a, b}",
    "\"a string\"",
    "0'a",
    "0x1F + 0o17 + 0b101",
    "1.5e10",
    "1.0Inf",
    "a:b:c",
    "X == Y, X \\== Z",
    "p :- ( a -> b ; c )",
    "'hello world'(1)",
    "'\\x41\\\\n'",
    "[]",
    "'[]'",
    "{}",
    "f(a, (b, c))",
    "f((a :- b))",
    "\\+ a",
    "a , b",
    "1 - -1",
    "2 ** 3 ^ 4",
    "X = \"\"",
    "f(A, _B, _)",
    "[a|[b|[c]]]",
    "a = \\ , b",
    "* = *",
    "[-]",
    "- - - 1",
    "a- - -b",
    "f(;)",
    "(a , b) = ','(a, b)",
    "\"abc\" = [a,b,c]",
    "'a''b'",
    "\"a\"\"b\"",
    "0'''",
    "0'\\n",
    "`abc`",
    "f(\n  a,\n  b\n)",
    "a % comment\n , b",
    "a /* comment */ , b",
    "p :- q, !, r",
    ":- dynamic(foo/1)",
    "?- true",
    "1 = 1.0",
    "f(|)",
    "[a|b]",
    "x = (a | b)",
    "123456789012345678901234567890",
    "- 0.0",
    "f( a )",
    "\u{3bb}x = '\u{65e5}\u{672c}'",
];

pub const SOUP: &[&str] = &[
    "a", "foo", "X", "_", "_G1", "1", "0", "42", "1.5", "1.0e10", "0x1F", "0'a", "0'", "'q a'", "\"s\"", "`b`", "(", ")", "[", "]", "{", "}", ",", "|", "||", ".", ":-", "-->", "?-", ";", "->", "=", "\\=", "==", "=..", "is", "+", "-", "*", "/", "//", "**", "^", "\\+", "\\", "!", "@", "#", "$", "&", "<", ">", ">=", "=<", "@<", ":", "?", "~", "mod", "rem", "xor", "dynamic", "/*", "*/", "%", "'", "\"", "`", "\\x41\\", "\\z", "e", "E", "Inf", "NaN", "\n", "\t", " ", "\u{3bb}", "\u{65e5}", "\u{a0}", "'\\", "\"\\", "0b", "0o", "0x", "1e", "1.e5", "1.", "..", "a.b", "[]", "{}", "'[]'", "(,)",
];

pub const CONTROL: &[&str] = &["\u{0}", "\u{1}", "\u{8}", "\u{1b}", "\u{7f}", "\u{85}", "\u{1f600}", "\u{2028}", "\u{ad}", "\u{2603}"];

pub const NASTY: &[&str] = &[
    "(", ")", "[", "]", "{", "}", ",", "|", "'", "\"", "`", "\\", "\\z", "\\x", "\\x41", "\\x41\\", "\\xZZ\\", "\\777777777777\\", "/*", "*/", "%", "0'", ".", " . ", ". ", "e", "E", "_", "\u{3bb}", "\u{feff}", "\u{a0}", "\n", "\t", " ", "1", "0x", "''", "\"\"", "-", "+", ":-", "\\\n", "'\\\n'",
];

fn tokenize(s: &str) -> Vec<String> {
    let mut out: Vec<String> = vec![];
    let mut cur = String::new();
    let mut kind = 0u8; // 1 alnum, 2 space, 0 none
    for c in s.chars() {
        let k = if c.is_alphanumeric() || c == '_' {
            1
        } else if c.is_whitespace() {
            2
        } else {
            3
        };
        if k == 3 || k != kind {
            if !cur.is_empty() {
                out.push(std::mem::take(&mut cur));
            }
        }
        cur.push(c);
        kind = k;
        if k == 3 {
            out.push(std::mem::take(&mut cur));
            kind = 0;
        }
    }
    if !cur.is_empty() {
        out.push(cur);
    }
    out
}

impl Clause {
    pub fn is_valid_source(&self) -> bool {
        self.muts.is_empty() && matches!(self.src, Src::Term(_) | Src::Corpus(_))
    }
    /// clause text without the end token
    pub fn body(&self) -> String {
        let base = match &self.src {
            Src::Term(t) => t.text(),
            Src::Corpus(k) => pick(CORPUS, *k).to_string(),
            Src::Soup(toks, mask) => {
                let mut s = String::new();
                for (i, t) in toks.iter().enumerate() {
                    s.push_str(pick(SOUP, *t));
                    if i < 32 && (mask >> i) & 1 == 1 {
                        s.push(' ');
                    }
                }
                s
            }
            Src::Raw(s) => s.clone(),
        };
        let mut chars: Vec<char> = base.chars().collect();
        for m in &self.muts {
            let n = chars.len();
            match m {
                Mut::Delete(p) if n > 0 => {
                    chars.remove(*p as usize % n);
                }
                Mut::Dup(p) if n > 0 => {
                    let i = *p as usize % n;
                    let c = chars[i];
                    chars.insert(i, c);
                }
                Mut::Swap(p) if n > 1 => {
                    let i = *p as usize % (n - 1);
                    chars.swap(i, i + 1);
                }
                Mut::Insert(p, k) => {
                    let i = *p as usize % (n + 1);
                    let ins: Vec<char> = pick(NASTY, *k).chars().collect();
                    chars.splice(i..i, ins);
                }
                Mut::InsertCtl(p, k) => {
                    let i = *p as usize % (n + 1);
                    let ins: Vec<char> = pick(CONTROL, *k).chars().collect();
                    chars.splice(i..i, ins);
                }
                Mut::Truncate(p) if n > 0 => {
                    chars.truncate(*p as usize % n);
                }
                Mut::TokDelete(_) | Mut::TokDup(_) | Mut::TokSwap(_) => {
                    let s: String = chars.iter().collect();
                    let mut toks = tokenize(&s);
                    // only non-blank tokens are addressed
                    let idx: Vec<usize> = toks.iter().enumerate().filter(|(_, t)| !t.trim().is_empty()).map(|(i, _)| i).collect();
                    if !idx.is_empty() {
                        match m {
                            Mut::TokDelete(p) => {
                                toks.remove(idx[*p as usize % idx.len()]);
                            }
                            Mut::TokDup(p) => {
                                let i = idx[*p as usize % idx.len()];
                                let t = toks[i].clone();
                                toks.insert(i, t);
                            }
                            Mut::TokSwap(p) if idx.len() > 1 => {
                                let j = *p as usize % (idx.len() - 1);
                                toks.swap(idx[j], idx[j + 1]);
                            }
                            _ => {}
                        }
                    }
                    chars = toks.concat().chars().collect();
                }
                _ => {}
            }
        }
        chars.into_iter().collect()
    }
    pub fn text(&self) -> String {
        format!("{} .\n", self.body())
    }
}

/// can this (malformed) clause text hide an end token from the reader?
fn has_swallower(body: &str) -> bool {
    body.contains('\'') || body.contains('"') || body.contains('`') || body.contains('%') || body.contains("/*")
}

// ---------------------------------------------------------------------------------------------
// running one case on a session

static FILE_SEQ: AtomicU64 = AtomicU64::new(0);

fn scratch_file() -> PathBuf {
    let dir = PathBuf::from(verif_dir()).join("scratch").join(format!("c17-{}", std::process::id()));
    std::fs::create_dir_all(&dir).ok();
    dir.join(format!("t{}.pl", FILE_SEQ.fetch_add(1, Ordering::SeqCst) % 8))
}

fn list_items(t: &T) -> Option<Vec<T>> {
    match t {
        T::PList(items, tail) if tail.is_nil() => Some(items.clone()),
        t if t.is_nil() => Some(vec![]),
        T::Str(s) => Some(s.chars().map(|c| T::Atom(c.to_string())).collect()),
        _ => None,
    }
}

fn functor_of(t: &T) -> String {
    match t {
        T::Cmp(n, a) => format!("{n}/{}", a.len()),
        T::Atom(a) => a.clone(),
        _ => "?".into(),
    }
}

fn codes_to_string(t: &T) -> Option<String> {
    let items = list_items(t)?;
    let mut s = String::new();
    for it in items {
        match it {
            T::Int(i) => s.push(char::from_u32(u32::try_from(&i).ok()?)?),
            _ => return None,
        }
    }
    Some(s)
}

/// decodes the tagged encoding produced by vp_enc/2 (received as an ordinary term) into a T
fn dec_enc(e: &T) -> Option<T> {
    match e {
        T::Cmp(n, a) => match (n.as_str(), a.len()) {
            ("v", 1) => match &a[0] {
                T::Int(i) => Some(T::Var(u32::try_from(i).ok()?)),
                _ => None,
            },
            ("a", 1) => Some(T::Atom(codes_to_string(&a[0])?)),
            ("i", 1) | ("f", 1) => Some(a[0].clone()),
            ("r", 2) => match (&a[0], &a[1]) {
                (T::Int(n), T::Int(d)) => Some(T::Rat(n.clone(), d.clone())),
                _ => None,
            },
            ("c", 2) => {
                let name = codes_to_string(&a[0])?;
                let args: Option<Vec<T>> = list_items(&a[1])?.iter().map(dec_enc).collect();
                Some(T::Cmp(name, args?))
            }
            ("l", 2) => {
                let items: Option<Vec<T>> = list_items(&a[0])?.iter().map(dec_enc).collect();
                Some(T::PList(items?, Box::new(dec_enc(&a[1])?)).norm())
            }
            _ => None,
        },
        _ => None,
    }
}

#[derive(Clone, Debug, PartialEq)]
enum R {
    Term(T),
    Syn(String),
    Other(T),
    Eof,
    Limit,
}

fn decode_r(t: &T) -> Option<R> {
    match t {
        T::Atom(a) if a == "eof" => Some(R::Eof),
        T::Atom(a) if a == "limit" => Some(R::Limit),
        T::Cmp(n, a) if n == "t" && a.len() == 1 => Some(R::Term(a[0].clone())),
        T::Cmp(n, a) if n == "syn" && a.len() == 1 => Some(R::Syn(a[0].text())),
        T::Cmp(n, a) if n == "other" && a.len() == 1 => Some(R::Other(a[0].clone())),
        _ => None,
    }
}

fn read_file_pass(s: &mut Session, path: &str, max: usize) -> Result<Vec<R>, Verdict> {
    let o = s.ask_once(&format!("c17_read_file_enc('{path}', {max}, E)"), "E");
    match &o {
        Outcome::Panic(m) => Err(Verdict::fail(format!("panic:{}", m.split_whitespace().next().unwrap_or("?")), format!("read_term panicked: {m}"))),
        Outcome::Sols(v) if v.len() == 1 => {
            let rs = dec_enc(&v[0]).ok_or_else(|| Verdict::Discard("harness:result-encoding".into()))?;
            let items = list_items(&rs).ok_or_else(|| Verdict::Discard("harness:result-not-a-list".into()))?;
            let mut out = vec![];
            for it in &items {
                out.push(decode_r(it).ok_or_else(|| Verdict::Discard("harness:bad-result-item".into()))?);
            }
            Ok(out)
        }
        Outcome::Ex(b) => Err(Verdict::fail(format!("non-syntax-error:outside-read:{}", functor_of(b)), format!("reading the file raised {} outside read_term", o.short()))),
        other => Err(Verdict::Discard(format!("harness:{}", other.short().chars().take(40).collect::<String>()))),
    }
}

pub fn judge_case(s: &mut Session, c: &Case) -> Verdict {
    let bodies: Vec<String> = c.clauses.iter().map(|cl| cl.body()).collect();
    let text: String = c.text();
    let mut valid: Vec<bool> = c.clauses.iter().map(|cl| cl.is_valid_source()).collect();
    if c.cut_end {
        // the last clause has no end token: malformed by construction
        *valid.last_mut().unwrap() = false;
    }
    let mut rejected_alone = false;
    let show = || format!("text {:?}", text);

    // expected terms of the valid clauses: each read alone
    let mut expected: Vec<Option<T>> = vec![];
    for (i, cl) in c.clauses.iter().enumerate() {
        if !valid[i] {
            expected.push(None);
            continue;
        }
        let t = T::Str(cl.text());
        let o = s.ask_once(&format!("c17_alone_enc({}, E)", t.enc_text()), "E");
        match &o {
            Outcome::Panic(m) => return Verdict::fail(format!("panic:{}", m.split_whitespace().next().unwrap_or("?")), format!("read_term_from_chars of {:?} panicked: {m}", cl.text())),
            Outcome::Sols(v) if v.len() == 1 => match dec_enc(&v[0]).as_ref().and_then(decode_r) {
                Some(R::Term(t)) => expected.push(Some(t)),
                _ => {
                    // not accepted on its own: from here on it counts as a malformed clause
                    valid[i] = false;
                    rejected_alone = true;
                    expected.push(None);
                }
            },
            _ => return Verdict::Discard("harness:alone-read-gave-no-result".into()),
        }
    }

    let path = scratch_file();
    if std::fs::write(&path, text.as_bytes()).is_err() {
        return Verdict::Discard("harness:cannot-write-file".into());
    }
    let p = path.to_string_lossy().to_string();
    let dots = text.matches('.').count();
    let max = 4 * c.clauses.len() + 2 * dots + 8;
    let r1 = match read_file_pass(s, &p, max) {
        Ok(r) => r,
        Err(v) => return with_text(v, &text),
    };
    let r2 = match read_file_pass(s, &p, max) {
        Ok(r) => r,
        Err(v) => return with_text(v, &text),
    };

    // (1) classes of outcomes
    let mut classes: Vec<&str> = vec![];
    let mut iso_repr = false;
    for r in &r1 {
        match r {
            R::Other(b) => {
                // ISO 8.14.1.3: representation_error(max_arity | max_integer | min_integer) are reader errors too
                let repr = matches!(b, T::Cmp(n, a) if n == "error" && a.len() == 2 && matches!(&a[0], T::Cmp(k, _) if k == "representation_error"));
                if repr {
                    iso_repr = true;
                } else {
                    let f = match b {
                        T::Cmp(n, a) if n == "error" && a.len() == 2 => functor_of(&a[0]),
                        other => format!("ball:{}", functor_of(other)),
                    };
                    return Verdict::fail(format!("non-syntax-error:{f}"), format!("read_term raised {} ; {}", b.text(), show()));
                }
            }
            R::Limit => {
                // what keeps coming back?
                let k = r1.len();
                let rep = if k >= 3 { &r1[k - 2] } else { &R::Limit };
                let what = match rep {
                    R::Syn(kind) => format!("repeats-syntax_error({kind})"),
                    R::Term(T::Var(_)) => "repeats-success-with-unbound-term".to_string(),
                    R::Term(_) => "repeats-term".to_string(),
                    _ => "other".to_string(),
                };
                return Verdict::fail(format!("no-progress:{what}"), format!("{max} reads did not reach the end of the file, the reader is stuck: last results {:?}; {}", &r1[k.saturating_sub(4)..], show()));
            }
            _ => {}
        }
    }
    if iso_repr {
        classes.push("iso-representation-error");
    } else if r1.last() != Some(&R::Eof) {
        return Verdict::Discard("harness:no-eof".into());
    }

    // (3) same results on the second pass
    if r1 != r2 {
        return Verdict::fail("nondeterministic:second-pass", format!("first pass {:?} second pass {:?}; {}", r1, r2, show()));
    }

    // (2) resynchronisation
    let n_syn = r1.iter().filter(|r| matches!(r, R::Syn(_))).count();
    let first_syn = r1.iter().position(|r| matches!(r, R::Syn(_)));
    let term_after_syn = first_syn.map(|i| r1[i + 1..].iter().any(|r| matches!(r, R::Term(_)))).unwrap_or(false);
    let bad: Vec<usize> = (0..c.clauses.len()).filter(|i| !valid[*i]).collect();
    let swallow = bad.iter().any(|i| has_swallower(&bodies[*i]));
    if !iso_repr {
        let terms: Vec<&R> = r1[..r1.len() - 1].iter().collect();
        let same = |r: &R, e: &T| matches!(r, R::Term(t) if t.variant(e));
        if bad.is_empty() {
            let ok = terms.len() == c.clauses.len() && terms.iter().zip(expected.iter()).all(|(r, e)| same(*r, e.as_ref().unwrap()));
            if !ok {
                return Verdict::fail("resync:valid-text-differs-from-alone", format!("a text of valid clauses read {:?}, reading each clause alone gives {:?}; {}", r1, expected, show()));
            }
            classes.push("all-valid");
        } else if swallow {
            classes.push("malformed-clause-with-quote-or-comment-opener");
        } else {
            classes.push("resync-checked");
            let j0 = bad[0];
            let j1 = *bad.last().unwrap();
            for i in 0..j0 {
                if !(i < terms.len() && same(terms[i], expected[i].as_ref().unwrap())) {
                    return Verdict::fail("resync:before-malformed", format!("valid clause {i} in front of the malformed one was not read back: results {:?}; {}", r1, show()));
                }
            }
            let n_after = c.clauses.len() - 1 - j1;
            for k in 0..n_after {
                let ci = j1 + 1 + k;
                let ri = terms.len() as isize - n_after as isize + k as isize;
                if !(ri >= 0 && same(terms[ri as usize], expected[ci].as_ref().unwrap())) {
                    return Verdict::fail("resync:after-malformed", format!("valid clause {ci} after the malformed clause {j1} was not read back as {}: results {:?}; {}", expected[ci].as_ref().unwrap().text(), r1, show()));
                }
            }
            // every valid clause, in order
            let mut ri = 0;
            for (ci, e) in expected.iter().enumerate() {
                if let Some(e) = e {
                    while ri < terms.len() && !same(terms[ri], e) {
                        ri += 1;
                    }
                    if ri >= terms.len() {
                        return Verdict::fail("resync:between-malformed", format!("valid clause {ci} ({}) does not appear in order among the results {:?}; {}", e.text(), r1, show()));
                    }
                    ri += 1;
                }
            }
        }
    }
    if n_syn > 0 {
        classes.push("has-syntax-error");
    }
    if c.cut_end {
        classes.push("text-ends-inside-a-clause");
    }
    if rejected_alone {
        classes.push("valid-source-rejected-when-read-alone");
    }
    if term_after_syn {
        classes.push("term-read-after-syntax-error");
    }
    for cl in &c.clauses {
        classes.push(match (&cl.src, cl.muts.is_empty()) {
            (Src::Soup(..), _) => "src:token-soup",
            (Src::Raw(_), _) => "src:raw-unicode",
            (Src::Term(_), true) => "src:valid-term",
            (Src::Corpus(_), true) => "src:valid-corpus",
            (Src::Term(_), false) => "src:mutated-term",
            (Src::Corpus(_), false) => "src:mutated-corpus",
        });
    }
    classes.sort();
    classes.dedup();
    Verdict::pass(n_syn > 0 && term_after_syn, &classes)
}

fn with_text(v: Verdict, text: &str) -> Verdict {
    match v {
        Verdict::Fail { signature, detail } => Verdict::Fail { signature, detail: format!("{detail}; text {text:?}") },
        v => v,
    }
}

fn new_session() -> Session {
    // library(dcgs) makes '|' an infix operator (priority 1100): the reader's handling of a bar in
    // argument position (`foo(|).`, `foo(a, |).`) is only reachable with such an operator table
    let mut s = Session::new(&["dcgs"]);
    assert!(s.consult(C17_PL, "c17"), "c17.pl failed to load");
    s
}

// ---------------------------------------------------------------------------------------------
// session thread with hang detection

struct Worker {
    tx: Sender<Case>,
    rx: Receiver<Verdict>,
}

/// The session thread is shared by all cases of the process (reading a file leaves no state
/// behind); after a failure that is not a tolerated known finding it is replaced, so that the
/// driver's confirmation run and every shrink candidate get a brand-new machine.
pub struct Env;

thread_local! {
    static WORKER: std::cell::RefCell<Option<Worker>> = const { std::cell::RefCell::new(None) };
}

pub fn mk_env() -> Env {
    Env
}

fn spawn_worker() -> Worker {
    let (tx, jrx) = channel::<Case>();
    let (vtx, rx) = channel::<Verdict>();
    std::thread::Builder::new()
        .name("c17-session".into())
        .stack_size(256 << 20)
        .spawn(move || {
            let mut s = new_session();
            let mut n = 0u32;
            while let Ok(c) = jrx.recv() {
                if s.poisoned || n >= 3000 {
                    s = new_session();
                    n = 0;
                }
                n += 1;
                let v = judge_case(&mut s, &c);
                if vtx.send(v).is_err() {
                    break;
                }
            }
        })
        .expect("spawn session thread");
    Worker { tx, rx }
}

/// after the first hang every further case of this process runs in a child process that can be killed
static CHILD_ONLY: AtomicBool = AtomicBool::new(false);
const IN_PROCESS_TIMEOUT_S: u64 = 30;
const CHILD_CONFIRM_TIMEOUT_S: u64 = 300;
const CHILD_SHRINK_TIMEOUT_S: u64 = 20;

fn run_in_child(c: &Case, timeout_s: u64) -> Verdict {
    let o = run_child("C17", "case", &serde_json::to_value(c).unwrap(), timeout_s, &[]);
    if o.timed_out {
        return Verdict::fail("hang:read_term", format!("reading did not finish within {timeout_s} s in a process of its own; text {:?}", c.text()));
    }
    if o.crashed() {
        let kind = if o.stack_overflow() { "stack-overflow".to_string() } else { format!("signal-{}", o.signal.unwrap_or(0)) };
        return Verdict::fail(format!("crash:{kind}"), format!("child process died: {}", o.stderr.lines().last().unwrap_or("")));
    }
    let mut lines = o.stdout.lines();
    match lines.next() {
        Some(l) if l.starts_with("RESULT pass") => {
            let nt = l.contains(" nontrivial");
            Verdict::pass(nt, &["ran-in-child"])
        }
        Some(l) if l.starts_with("RESULT discard") => Verdict::Discard(l["RESULT discard".len()..].trim().to_string()),
        Some(l) if l.starts_with("RESULT fail ") => Verdict::fail(l["RESULT fail ".len()..].trim().to_string(), lines.collect::<Vec<_>>().join(" ")),
        _ => Verdict::Discard(format!("harness:child-gave-no-result code={:?}", o.code)),
    }
}

pub fn check(_env: &mut Env, c: &Case) -> Verdict {
    if CHILD_ONLY.load(Ordering::SeqCst) {
        return run_in_child(c, CHILD_SHRINK_TIMEOUT_S);
    }
    let w = WORKER.with(|w| w.borrow_mut().take()).unwrap_or_else(spawn_worker);
    if w.tx.send(c.clone()).is_err() {
        return Verdict::Discard("harness:session-thread-gone".into());
    }
    match w.rx.recv_timeout(Duration::from_secs(IN_PROCESS_TIMEOUT_S)) {
        Ok(v) => {
            let keep = match &v {
                Verdict::Fail { signature, .. } => is_known_open(signature),
                _ => true,
            };
            if keep {
                WORKER.with(|x| *x.borrow_mut() = Some(w));
            }
            v
        }
        Err(RecvTimeoutError::Disconnected) => {
            // the thread died: a panic that escaped the session layer
            let v = run_in_child(c, CHILD_CONFIRM_TIMEOUT_S);
            match v {
                Verdict::Fail { .. } => v,
                _ => Verdict::Discard("harness:session-thread-died".into()),
            }
        }
        Err(RecvTimeoutError::Timeout) => {
            // abandon the thread (it may spin for ever) and decide in a process that can be killed
            drop(w);
            let v = run_in_child(c, CHILD_CONFIRM_TIMEOUT_S);
            if matches!(&v, Verdict::Fail { signature, .. } if signature.starts_with("hang:")) {
                CHILD_ONLY.store(true, Ordering::SeqCst);
            }
            v
        }
    }
}

// ---------------------------------------------------------------------------------------------
// generators

fn mut_strategy() -> BoxedStrategy<Mut> {
    prop_oneof![
        3 => any::<u16>().prop_map(Mut::Delete),
        2 => any::<u16>().prop_map(Mut::Dup),
        2 => any::<u16>().prop_map(Mut::Swap),
        5 => (any::<u16>(), any::<u16>()).prop_map(|(p, k)| Mut::Insert(p, k)),
        2 => any::<u16>().prop_map(Mut::Truncate),
        1 => (any::<u16>(), any::<u16>(), 0u8..8).prop_map(|(p, k, rare)| if rare == 0 { Mut::InsertCtl(p, k) } else { Mut::Dup(p) }),
        2 => any::<u16>().prop_map(Mut::TokDelete),
        2 => any::<u16>().prop_map(Mut::TokDup),
        2 => any::<u16>().prop_map(Mut::TokSwap),
    ]
    .boxed()
}

fn term_src() -> BoxedStrategy<Src> {
    let cfg = TermCfg { depth: 3, size: 10, nvars: 3, tricky_atoms: true, floats: true, bigints: true, strings: true, rationals: false, partial_lists: true };
    term_strategy(cfg)
        .prop_filter("no end_of_file atom, no bare variable", |t| {
            fn ok(t: &T) -> bool {
                match t {
                    T::Atom(a) => a != "end_of_file",
                    T::Cmp(n, a) => n != "end_of_file" && a.iter().all(ok),
                    T::PList(i, t) => i.iter().all(ok) && ok(t),
                    _ => true,
                }
            }
            ok(t) && !matches!(t, T::Var(_))
        })
        .prop_map(Src::Term)
        .boxed()
}

fn valid_src() -> BoxedStrategy<Src> {
    prop_oneof![3 => term_src(), 2 => any::<u16>().prop_map(Src::Corpus)].boxed()
}

fn clause_strategy() -> BoxedStrategy<Clause> {
    let valid = valid_src().prop_map(|src| Clause { src, muts: vec![] });
    let mutated = (valid_src(), proptest::collection::vec(mut_strategy(), 1..=3)).prop_map(|(src, muts)| Clause { src, muts });
    let soup = (proptest::collection::vec(any::<u16>(), 1..=12), any::<u32>(), proptest::collection::vec(mut_strategy(), 0..=1)).prop_map(|(t, m, muts)| Clause { src: Src::Soup(t, m), muts });
    let raw = (proptest::collection::vec(any::<char>(), 0..=12), 0u8..6).prop_map(|(v, wild)| {
        // mostly characters the lexer has a class for; now and then anything at all
        let v: Vec<char> = if wild == 0 { v } else { v.into_iter().map(|c| if c.is_alphanumeric() || c.is_ascii() { c } else { char::from_u32(0x21 + (c as u32 % 0x5e)).unwrap() }).collect() };
        Clause { src: Src::Raw(v.into_iter().collect()), muts: vec![] }
    });
    prop_oneof![5 => valid, 6 => mutated, 3 => soup, 1 => raw].boxed()
}

pub fn case_strategy() -> BoxedStrategy<Case> {
    (proptest::collection::vec(clause_strategy(), 1..=4), 0u8..8).prop_map(|(clauses, cut)| Case { clauses, cut_end: cut == 0 }).boxed()
}

// ---------------------------------------------------------------------------------------------

pub struct C17;

impl Prop for C17 {
    fn id(&self) -> &'static str {
        "C17"
    }
    fn rule(&self) -> &'static str {
        "texts of 1-4 clauses each ended by \" .\\n\": valid clauses (generated terms in canonical notation with tricky atoms, or operator-notation clauses from a 60-entry corpus), char-level and token-level mutations of them (delete/duplicate/swap/truncate, insertion of brackets, quotes, invalid escapes, NUL and control characters, comment openers, 0', end tokens), token soup over the lexer's token classes, random Unicode; the text is written to a file and read to its end with read_term/3, twice; every read must be a term, a syntax_error or end of file within a bounded number of reads, the second pass must equal the first, and when no malformed clause contains a quote character, % or /* every valid clause must be read back exactly as when read alone (those before the first malformed clause first, those after the last one last, all in order); non-trivial = at least one syntax_error and at least one term read after it; distinct by case encoding"
    }
    fn assumptions(&self) -> Vec<String> {
        vec![
            "read_term_from_chars/3 of a single valid clause is the reference for what that clause denotes".into(),
            "only quote characters, % and /* can hide an end token \" .\\n\" from the reader; malformed clauses containing one are exempt from the resynchronisation oracle".into(),
            "ISO 8.14.1.3 representation_error from read_term is accepted besides syntax_error".into(),
            "a hang is reported only when the text alone also fails to finish within 300 s in a process of its own".into(),
        ]
    }
    fn run_shard(&self, cfg: &ShardCfg) -> ShardResult {
        let mut d = Driver::new(cfg, "C17");
        let n = cfg.share(cfg.tier.pick(60_000, 3_000_000));
        d.run("text", 0, n, 1_000_000, case_strategy(), &mk_env, &check);
        let _ = std::fs::remove_dir_all(PathBuf::from(verif_dir()).join("scratch").join(format!("c17-{}", std::process::id())));
        d.finish()
    }
    fn replay(&self, _kind: &str, case: &Value) -> Verdict {
        let v = replay_case::<Case, Env>(case, &mk_env, &check);
        WORKER.with(|w| *w.borrow_mut() = None);
        std::thread::sleep(Duration::from_millis(50));
        let _ = std::fs::remove_dir_all(PathBuf::from(verif_dir()).join("scratch").join(format!("c17-{}", std::process::id())));
        v
    }
    fn child(&self, mode: &str, input: &Value) -> i32 {
        if mode != "case" {
            return 2;
        }
        let Ok(c) = serde_json::from_value::<Case>(input.clone()) else { return 2 };
        let mut s = new_session();
        let v = judge_case(&mut s, &c);
        let _ = std::fs::remove_dir_all(PathBuf::from(verif_dir()).join("scratch").join(format!("c17-{}", std::process::id())));
        match v {
            Verdict::Pass { nontrivial, .. } => println!("RESULT pass{}", if nontrivial { " nontrivial" } else { "" }),
            Verdict::Discard(w) => println!("RESULT discard {w}"),
            Verdict::Fail { signature, detail } => println!("RESULT fail {signature}\n{detail}"),
        }
        0
    }
}
