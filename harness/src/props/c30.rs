//! C30 — Memory exhaustion at any allocation raises a catchable error.
//!
//! Fault enumeration: for every workload W of the catalogue (prolog/faults.pl) and every
//! pre-fill distance d (the machine heap is filled so that exactly d cells are free when W
//! starts, i.e. the heap's next doubling lands on a different allocation of W for every d),
//! every heap-growth attempt k that W makes is made to fail once
//! (`alloc_fault::arm(k, one_shot)`), each on a fresh machine, in a child process per (W, d).
//!
//! Accepted outcomes of `catch(W, error(resource_error(memory), _), R = caught)`:
//!   * R = W's tabulated result (the failed growth was not needed / was retried),
//!   * R = caught,
//!   * `error(resource_error(memory), _)` at the top of the query *only* when the mark set as
//!     the first goal inside the catch/3 is still unset (the growth failed before catch/3 was
//!     active — the running goal still received the error).
//! Everything else (panic, abort, other ball, silent failure, wrong result) is a violation, and
//! so is any wrong answer of the follow-up battery / of W itself re-run on the same machine
//! with the injector disarmed, or a control state (stack, trail, choice points, cleanup
//! handlers, inference-limit stack) that differs from a machine that never saw a fault.

use crate::engine::*;
use crate::shared::faultlib::*;
use scryer_prolog::verif_hooks::alloc_fault;
use scryer_prolog::{Machine, MachineBuilder, StreamConfig};
use serde::{Deserialize, Serialize};
use serde_json::{json, Value};

pub struct C30;

#[derive(Clone, Debug, Serialize, Deserialize, PartialEq)]
pub struct Inject {
    pub w: String,
    /// free cells of the machine heap when the workload starts
    pub d: u64,
    /// the machine has run no query before the injected one (pre-allocated error intact)
    pub first: bool,
    /// index of the failing growth attempt
    pub k: u64,
    /// every growth attempt from the k-th on fails until the query returns (real exhaustion)
    #[serde(default)]
    pub persist: bool,
}

#[derive(Clone, Debug, Serialize, Deserialize)]
struct GroupIn {
    w: String,
    d: u64,
    first: bool,
    n: u64,
    kf: u64,
    target: u64,
    persist: bool,
    ks: Option<Vec<u64>>,
}

#[derive(Clone, Debug, Serialize, Deserialize)]
struct InjOut {
    k: u64,
    fired: u64,
    outcome: String,
    mark: String,
    sig: Option<String>,
    detail: String,
    classes: Vec<String>,
    nontrivial: bool,
}

// ---------------------------------------------------------------------------------------------
// machines

fn mk(first: bool) -> Machine {
    if first {
        // no run_query before the injected query: only the loader has run
        let mut m = MachineBuilder::default().with_streams(StreamConfig::in_memory()).build();
        m.consult_module_string("user", FAULTS_PL);
        m
    } else {
        mk_machine().machine
    }
}

fn query(n: u64, kf: u64, w: &str) -> String {
    format!("vf_run({n},{kf},{w},R).")
}

/// heap level (cells) right after `vf_run(n,kf,nop,R)` delivered its answer, and the growth
/// attempts made by that run
fn level(first: bool, n: u64, kf: u64) -> Result<(u64, u64), String> {
    level_w(first, n, kf, "nop", "ok")
}

fn level_w(first: bool, n: u64, kf: u64, w: &str, expected: &str) -> Result<(u64, u64), String> {
    let mut m = mk(first);
    let o = run_first_and_freeze(&mut m, &query(n, kf, w), &mut || alloc_fault::reset_attempts());
    let a = alloc_fault::attempts();
    let l = m.verif_footprint().heap_cells as u64;
    std::mem::forget(m);
    match o {
        QOut::R(r) if r == expected => Ok((l, a)),
        other => Err(format!("{w} run gave {}", other.short())),
    }
}

/// cells the workload leaves on the heap (its allocation span when it does not backtrack)
fn span_of(first: bool, w: &Workload) -> Result<u64, String> {
    let (l0, _) = level(first, 1000, 0)?;
    let (l1, _) = level_w(first, 1000, 0, w.name, w.expected)?;
    Ok(l1.saturating_sub(l0))
}

#[derive(Clone, Debug, Serialize, Deserialize)]
pub struct Calib {
    cap: u64,
    c0: i64,
    slope: i64,
    g: Vec<i64>,
    a0: u64,
}

fn calibrate(first: bool) -> Result<Calib, String> {
    let (l1, a0) = level(first, 1000, 0)?;
    let (l2, _) = level(first, 2000, 0)?;
    let slope = (l2 as i64 - l1 as i64) / 1000;
    if slope <= 0 || (l2 as i64 - l1 as i64) % 1000 != 0 {
        return Err(format!("fill is not linear: {l1} {l2}"));
    }
    let c0 = l1 as i64 - 1000 * slope;
    let mut g = vec![0i64];
    for k in 1..=4u64 {
        let (lk, _) = level(first, 1000, k)?;
        g.push(lk as i64 - l1 as i64);
    }
    // capacity: the first 65536*2^j whose crossing makes the nop run attempt a growth
    let mut cap = 0u64;
    for j in 0..10u32 {
        let c = 65536u64 << j;
        let n = ((c as i64 + 3000 - c0) / slope) as u64;
        let (l, a) = level(first, n, 0)?;
        if l <= c {
            return Err(format!("calibration fill too small: level {l} cap candidate {c}"));
        }
        if a > a0 {
            cap = c;
            break;
        }
    }
    if cap == 0 {
        return Err("capacity not found".into());
    }
    Ok(Calib { cap, c0, slope, g, a0 })
}

impl Calib {
    fn fill_for(&self, d: u64) -> Option<(u64, u64, u64)> {
        let target = self.cap as i64 - d as i64;
        for (k, gk) in self.g.iter().enumerate() {
            let rest = target - self.c0 - gk;
            if rest > 0 && rest % self.slope == 0 {
                return Some(((rest / self.slope) as u64, k as u64, target as u64));
            }
        }
        None
    }
}

// ---------------------------------------------------------------------------------------------
// child: one (workload, d) group

fn followups(m: &mut Machine, w: &Workload, q: &str) -> Vec<(String, String)> {
    let mut v = vec![];
    let mut ask = |m: &mut Machine, name: &str, q: &str| -> bool {
        let o = run_first(m, q, &mut || {}, &mut || {});
        let dead = matches!(o, QOut::Panic(_));
        v.push((name.to_string(), o.short()));
        !dead
    };
    if !ask(m, "cleanup", "vf_cleanup.") {
        return v;
    }
    if !ask(m, "battery", "vf_battery(R).") {
        return v;
    }
    if !ask(m, "again", &format!("vf_run(0,0,{},R).", w.name)) {
        return v;
    }
    if !ask(m, "again-filled", q) {
        return v;
    }
    if !ask(m, "battery2", "vf_battery(R).") {
        return v;
    }
    v.push(("control".into(), control_state(m)));
    v
}

fn expected_followups(w: &Workload) -> Vec<(String, String)> {
    vec![
        ("cleanup".into(), QOut::True.short()),
        ("battery".into(), QOut::R(BATTERY_EXPECTED.into()).short()),
        ("again".into(), QOut::R(w.expected.into()).short()),
        ("again-filled".into(), QOut::R(w.expected.into()).short()),
        ("battery2".into(), QOut::R(BATTERY_EXPECTED.into()).short()),
    ]
}

fn is_resource_error(t: &str) -> bool {
    t.starts_with("error(resource_error(memory),")
}

fn child_group(g: &GroupIn) -> i32 {
    use std::io::Write;
    let out = std::io::stdout();
    let say = |s: String| {
        let mut o = out.lock();
        let _ = writeln!(o, "{s}");
        let _ = o.flush();
    };
    let Some(w) = workload(&g.w) else {
        say(format!("HARNESS unknown workload {}", g.w));
        return 0;
    };
    // 1. steering check
    let (lvl, a_pre) = match level(g.first, g.n, g.kf) {
        Ok(x) => x,
        Err(e) => {
            say(format!("HARNESS steering probe failed: {e}"));
            return 0;
        }
    };
    if lvl != g.target {
        say(format!("HARNESS steering missed: level {lvl} target {}", g.target));
        return 0;
    }
    // 2. baseline (no fault): attempts, result, follow-ups
    let q = query(g.n, g.kf, w.name);
    let mut m = mk(g.first);
    let mut a = 0;
    let o = run_first(&mut m, &q, &mut || alloc_fault::reset_attempts(), &mut || a = alloc_fault::attempts());
    if !matches!(&o, QOut::R(r) if r == w.expected) {
        say(format!("HARNESS baseline of {} gave {} expected {}", w.name, o.short(), w.expected));
        return 0;
    }
    let base = followups(&mut m, w, &q);
    let mut exp = expected_followups(w);
    if base.len() != exp.len() + 1 || base[..exp.len()] != exp[..] {
        say(format!("HARNESS baseline follow-ups of {} gave {:?}", w.name, base));
        return 0;
    }
    exp.push(base.last().unwrap().clone());
    drop(m);
    let _ = crate::guard_alloc::take_corruptions();
    say(format!("ATTEMPTS {a} {a_pre}"));
    // 3. injections
    let ks: Vec<u64> = g.ks.clone().unwrap_or_else(|| (0..a).collect());
    for k in ks {
        say(format!("BEGIN {k}"));
        let mut m = mk(g.first);
        let mut fired = 0;
        let o = run_first(&mut m, &q, &mut || alloc_fault::arm(k, !g.persist), &mut || {
            fired = alloc_fault::fired();
            alloc_fault::disarm();
        });
        let mut classes: Vec<String> = vec![format!("w:{}", w.name)];
        let mut sig: Option<String> = None;
        let mut detail = String::new();
        let mut mark = String::from("-");
        let outcome = o.short();
        let dead = matches!(o, QOut::Panic(_));
        if !dead {
            mark = match run_first(&mut m, "vf_mark(R).", &mut || {}, &mut || {}) {
                QOut::R(r) => r,
                QOut::False => "unset".into(),
                other => other.short(),
            };
        }
        let mark_in = mark == "in";
        classes.push(if k >= a_pre { "site:attempt-made-only-with-W".into() } else { "site:attempt-also-made-without-W".into() });
        classes.push(format!("mark:{}", if mark_in { "inside-catch" } else { "before-mark" }));
        match &o {
            QOut::R(r) if r == w.expected => classes.push(if fired > 0 { "outcome:completed-despite-fault".into() } else { "outcome:fault-not-reached".into() }),
            QOut::R(r) if r == "caught" => classes.push("outcome:caught".into()),
            QOut::R(r) => {
                sig = Some(format!("wrong-result:{}", w.name));
                detail = format!("gave R = {r}, expected {} or caught", w.expected);
            }
            QOut::Err(t) if is_resource_error(t) => {
                if mark == "in" {
                    sig = Some(format!("not-catchable:{}", w.name));
                    detail = format!("error(resource_error(memory),_) reached the top although catch/3 was active (mark = in): {t}");
                } else {
                    classes.push("outcome:error-before-catch".into());
                }
            }
            QOut::Err(t) | QOut::Exc(t) => {
                let shape: String = t.chars().take_while(|c| *c != '(').take(40).collect();
                sig = Some(format!("wrong-ball:{shape}:mark-{mark}:{}", w.name));
                detail = format!("the goal received {t} instead of error(resource_error(memory),_)");
            }
            QOut::False => {
                sig = Some(format!("silent-failure:{}", w.name));
                detail = "the goal failed instead of receiving error(resource_error(memory),_)".into();
            }
            QOut::True | QOut::End => {
                sig = Some(format!("no-answer:{}", w.name));
                detail = format!("run_query gave {}", o.short());
            }
            QOut::Panic(p) => {
                sig = Some(format!("panic:{}@{}", panic_loc(p), w.name));
                detail = format!("Rust panic: {p}");
            }
        }
        let mut dead = dead;
        if SECOND_FAULT && !dead && sig.is_none() {
            // the same fault once more on the recovered machine (the failed growth left the capacity
            // unchanged, so the run meets the same situation again): it must be handled again
            let o2 = run_first(&mut m, &q, &mut || alloc_fault::arm(k, !g.persist), &mut || alloc_fault::disarm());
            let ok2 = match &o2 {
                QOut::R(r) => r == w.expected || r == "caught",
                QOut::Err(t) => is_resource_error(t),
                _ => false,
            };
            if let QOut::Panic(p) = &o2 {
                dead = true;
                sig = Some(format!("second-fault:panic:{}", panic_loc(p)));
                detail = format!("the first injected fault was handled ({outcome}); the same fault injected again on the recovered machine panicked: {p}");
            } else if !ok2 {
                sig = Some("second-fault:wrong".to_string());
                detail = format!("the first injected fault was handled ({outcome}); the same fault injected again on the recovered machine gave {}", o2.short());
            } else {
                classes.push("second-fault:handled".into());
            }
        }
        if dead {
            std::mem::forget(m);
        } else {
            let got = followups(&mut m, w, &q);
            let after_dead = got.iter().any(|(_, o)| o.starts_with("Panic"));
            if sig.is_none() {
                for (i, (name, val)) in exp.iter().enumerate() {
                    let g = got.get(i).map(|x| x.1.clone()).unwrap_or_else(|| "<not run>".into());
                    if &g != val {
                        let what = if g.starts_with("Panic") { format!("panic:{}", panic_loc(g.trim_start_matches("Panic(\"").trim_end_matches("\")"))) } else { "wrong".into() };
                        sig = Some(format!("after-recovery:{name}:{what}@{}", w.name));
                        detail = format!("after the injected fault ({outcome}) the follow-up '{name}' gave {g}, expected {val}");
                        break;
                    }
                }
            }
            if after_dead {
                std::mem::forget(m);
            } else {
                drop(m);
                if let Some((n, size, off)) = crate::guard_alloc::take_corruptions() {
                    if sig.is_none() {
                        sig = Some(format!("heap-overrun:canary@{}", w.name));
                        detail = format!("{n} block(s) written past their end (block of {size} bytes, offset {off})");
                    }
                }
            }
        }
        if sig.as_deref().map(|s| s.starts_with("second-fault:")).unwrap_or(false) {
            // the second fault necessarily runs on a machine that has completed a query before
            sig = sig.map(|s| format!("used-machine:{s}"));
        } else if g.persist {
            sig = sig.map(|s| format!("persistent:{}", s.split('@').next().unwrap_or(&s)));
        } else if !g.first {
            // On a machine that has run a query before, QueryState::drop has truncated the heap to
            // 0 and later queries have overwritten the pre-allocated error(resource_error(memory),[])
            // at its start: the symptoms vary with the heap contents, so they are keyed by kind only.
            sig = sig.map(|s| {
                let kind = if s.starts_with("panic:") { s.split('@').next().unwrap_or(&s).to_string() } else if s.starts_with("after-recovery:") { s.split('@').next().unwrap_or(&s).to_string() } else { s.split(':').next().unwrap_or(&s).to_string() };
                format!("used-machine:{kind}")
            });
        }
        let r = InjOut { k, fired, outcome, mark, sig, detail, classes, nontrivial: fired > 0 && mark_in };
        say(format!("INJ {}", serde_json::to_string(&r).unwrap()));
    }
    say("DONE".into());
    0
}

// ---------------------------------------------------------------------------------------------
// parent side

// below 26 free cells the crossing happens at one and the same reservation that every run makes
// before the workload's own allocations; from 26 on it moves through the workload's allocations
const D_MIN: u64 = 26;

/// Re-inject the same fault on the recovered machine. Disabled: after its first query every
/// machine is a "used" machine, whose pre-allocated resource error is overwritten (known finding
/// used-machine:*), and converting the resulting garbage ball (it contains the 100k-cell fill
/// list) through Term::from_heapcell takes half a minute per injection.
const SECOND_FAULT: bool = false;

/// distances for a workload whose allocations span `span` cells: the crossing must be able to land
/// anywhere in the workload, so the distances are spread over the whole span (with an irregular
/// offset so that they do not alias with the period of an allocation loop)
fn d_list(tier: Tier, span: u64) -> Vec<u64> {
    let (low, dense, spread): (Vec<u64>, u64, u64) = match tier {
        Tier::Quick => (vec![0], 1, 10),
        Tier::Thorough => (vec![0, 6, 12, 18, 24], 32, 47),
    };
    let mut v = low;
    v.extend(D_MIN..D_MIN + dense);
    for i in 1..=spread {
        v.push(D_MIN + dense + (span * i) / (spread + 1) + (i * 5) % 7);
    }
    v.sort();
    v.dedup();
    v
}

struct GroupRes {
    injs: Vec<InjOut>,
    crashes: Vec<(u64, String, String)>,
    harness: Vec<String>,
    complete: bool,
}

fn run_group(w: &str, d: u64, first: bool, persist: bool, cal: &Calib, only: Option<Vec<u64>>) -> GroupRes {
    let mut res = GroupRes { injs: vec![], crashes: vec![], harness: vec![], complete: false };
    let Some((n, kf, target)) = cal.fill_for(d) else {
        res.harness.push(format!("no fill for d={d}"));
        return res;
    };
    let mut ks = only;
    let mut attempts: Option<u64> = None;
    for _round in 0..64 {
        let gi = GroupIn { w: w.to_string(), d, first, n, kf, target, persist, ks: ks.clone() };
        let co = run_child("C30", "group", &serde_json::to_value(&gi).unwrap(), 180, &[]);
        let mut begun: Option<u64> = None;
        let mut done = false;
        for line in co.stdout.lines() {
            if let Some(r) = line.strip_prefix("HARNESS ") {
                res.harness.push(r.to_string());
            } else if let Some(r) = line.strip_prefix("ATTEMPTS ") {
                attempts = r.split_whitespace().next().and_then(|x| x.parse().ok());
            } else if let Some(r) = line.strip_prefix("BEGIN ") {
                begun = r.trim().parse().ok();
            } else if let Some(r) = line.strip_prefix("INJ ") {
                if let Ok(i) = serde_json::from_str::<InjOut>(r) {
                    res.injs.push(i);
                }
                begun = None;
            } else if line == "DONE" {
                done = true;
            }
        }
        if done || !res.harness.is_empty() {
            res.complete = done;
            return res;
        }
        if co.timed_out {
            res.harness.push(format!("child timed out (w={w} d={d} at k={begun:?})"));
            return res;
        }
        // the child died
        let tail: String = co.stderr.lines().rev().take(3).collect::<Vec<_>>().join(" | ");
        match begun {
            Some(k) => {
                let kind = if co.stack_overflow() {
                    "stack-overflow".to_string()
                } else {
                    match co.signal {
                        Some(11) => "sigsegv".into(),
                        Some(6) => "abort".into(),
                        Some(7) => "sigbus".into(),
                        Some(s) => format!("signal{s}"),
                        None => format!("exit{}", co.code.unwrap_or(-1)),
                    }
                };
                res.crashes.push((k, if first { format!("crash:{kind}@{w}") } else { format!("used-machine:crash:{kind}") }, format!("the process died ({kind}) during the injected run: {tail}")));
                let all: Vec<u64> = ks.clone().unwrap_or_else(|| (0..attempts.unwrap_or(0)).collect());
                let rest: Vec<u64> = all.into_iter().filter(|x| *x > k).collect();
                if rest.is_empty() {
                    res.complete = true;
                    return res;
                }
                ks = Some(rest);
            }
            None => {
                res.harness.push(format!("child died outside an injection (w={w} d={d}): signal {:?} code {:?} {tail}", co.signal, co.code));
                return res;
            }
        }
    }
    res
}

/// (first query ever?, persistent failure?)
fn modes() -> Vec<(bool, bool)> {
    vec![(true, false), (true, true), (false, false)]
}

impl Prop for C30 {
    fn id(&self) -> &'static str {
        "C30"
    }
    fn level(&self) -> &'static str {
        "fault_enumeration"
    }
    fn rule(&self) -> &'static str {
        "for each catalogued workload W (term construction, copy_term, findall, assertz, atom/string building, bignum text, reading, sorting, length, format_, big exception ball, bagof/setof; thorough adds 23 more) x each pre-fill distance d (free heap cells when W starts: 12 values quick / ~84 thorough, spread over the whole allocation span of W so the doubling can land on any of W's allocations) x machine history (first query ever / used machine) x failure mode (one-shot / persistent until the query returns): every heap-growth attempt k of the run (counted on an unfaulted run by the hook) is failed on a fresh machine; non-trivial = the injected failure fired (hook counter) after the mark that is set as the first goal inside the catch/3 around W; distinct by (W, d, history, mode, k)"
    }
    fn assumptions(&self) -> Vec<String> {
        vec![
            "the allocation-failure hook at the top of InnerHeap::grow is equivalent to the system allocator returning null there".into(),
            "only Heap growth is covered (machine heap, lifted heap, ball and other Heap instances); Vec/arena/stack allocations are outside the statement".into(),
            "only the catalogued workloads' allocation sites are reached; the evidence lists panic sites seen, not unreached sites".into(),
        ]
    }
    fn watchdog_s(&self, tier: Tier) -> u64 {
        tier.pick(1500, 14400)
    }
    fn child(&self, mode: &str, input: &Value) -> i32 {
        match mode {
            "group" => match serde_json::from_value::<GroupIn>(input.clone()) {
                Ok(g) => child_group(&g),
                Err(e) => {
                    println!("HARNESS bad input {e}");
                    0
                }
            },
            "calib" => {
                println!("used  {:?}", calibrate(false));
                println!("first {:?}", calibrate(true));
                for first in [true, false].into_iter().filter(|_| input.is_object()) {
                    let cal = calibrate(first).unwrap();
                    let mut line = String::new();
                    for d in 0..80u64 {
                        let (n, kf, t) = cal.fill_for(d).unwrap();
                        let (l, a) = level(first, n, kf).unwrap();
                        line.push_str(&format!("{d}:{a}{} ", if l == t { "" } else { "!" }));
                    }
                    println!("first={first} a_pre by d: {line}");
                }
                0
            }
            "survey" => {
                // vcheck child C30 survey <file with {"ws":[..],"ds":[..]}>: prints every outcome
                let ws: Vec<String> = input["ws"].as_array().map(|a| a.iter().filter_map(|x| x.as_str().map(String::from)).collect()).unwrap_or_default();
                let ds: Vec<u64> = input["ds"].as_array().map(|a| a.iter().filter_map(|x| x.as_u64()).collect()).unwrap_or_default();
                for (first, persist) in modes() {
                    let cal = match calibrate(first) {
                        Ok(c) => c,
                        Err(e) => {
                            println!("calibration failed: {e}");
                            return 2;
                        }
                    };
                    println!("first={first} persist={persist} {cal:?}");
                    for w in &ws {
                        for d in &ds {
                            let r = run_group(w, *d, first, persist, &cal, None);
                            for h in &r.harness {
                                println!("{w} d={d} first={first} HARNESS {h}");
                            }
                            for (k, s, dt) in &r.crashes {
                                println!("{w} d={d} first={first} k={k} CRASH {s} {dt}");
                            }
                            for i in &r.injs {
                                println!("{w} d={d} first={first} k={} fired={} mark={} {} :: {} {}", i.k, i.fired, i.mark, i.sig.clone().unwrap_or("pass".into()), i.outcome, i.detail);
                            }
                        }
                    }
                }
                0
            }
            "probe" => {
                let fresh = input["first"].as_bool().unwrap_or(false);
                let mut m = mk(fresh);
                println!("start {:?}", m.verif_footprint());
                for q in input["queries"].as_array().unwrap() {
                    let q = q.as_str().unwrap();
                    alloc_fault::reset_attempts();
                    let mut n = 0;
                    {
                        let it = m.run_query(q);
                        for a in it {
                            n += 1;
                            if n <= 3 {
                                let t = format!("{:?}", a);
                                println!("  ans {}", t.chars().take(300).collect::<String>());
                            }
                            if n > 20 {
                                break;
                            }
                        }
                    }
                    println!("{q} -> {n} answers attempts={} {}", alloc_fault::attempts(), control_state(&m));
                }
                0
            }
            "wl" => {
                for w in WORKLOADS {
                    let t0 = std::time::Instant::now();
                    let mut s = mk_machine();
                    let t1 = t0.elapsed();
                    let q = format!("vf_run(0,0,{},R).", w.name);
                    let o = run_first(&mut s.machine, &q, &mut || alloc_fault::reset_attempts(), &mut || {});
                    let a = alloc_fault::attempts();
                    let ok = matches!(&o, QOut::R(r) if r == w.expected);
                    println!("{:18} {} got {} expected {} attempts={} mk={:?} total={:?} {}", w.name, if ok { "OK " } else { "BAD" }, o.short(), w.expected, a, t1, t0.elapsed(), control_state(&s.machine));
                    let b = run_first(&mut s.machine, "vf_battery(R).", &mut || {}, &mut || {});
                    if !matches!(&b, QOut::R(r) if r == BATTERY_EXPECTED) {
                        println!("   battery {:?}", b);
                    }
                }
                0
            }
            _ => 2,
        }
    }

    fn run_shard(&self, cfg: &ShardCfg) -> ShardResult {
        let mut d = Driver::new(cfg, "C30");
        let ws: Vec<&Workload> = WORKLOADS.iter().filter(|w| !w.c31_only && (cfg.tier == Tier::Thorough || w.c30_quick)).collect();
        let mut groups: Vec<(String, u64, bool, bool)> = vec![];
        let mut spans: std::collections::BTreeMap<String, u64> = Default::default();
        for (first, persist) in modes() {
            for w in &ws {
                let span = match spans.get(w.name) {
                    Some(s) => *s,
                    None => {
                        let s = match span_of(true, w) {
                            Ok(s) => s,
                            Err(e) => {
                                d.note(format!("span of {} not measured ({e}); using 3000", w.name));
                                3000
                            }
                        };
                        spans.insert(w.name.to_string(), s);
                        s
                    }
                };
                let ds = d_list(cfg.tier, span);
                for (i, dd) in ds.iter().enumerate() {
                    // the used-machine history and the persistent failure mode are each dominated by
                    // one known defect: every 4th distance only
                    if (!first || persist) && i % 4 != 2 {
                        continue;
                    }
                    groups.push((w.name.to_string(), *dd, first, persist));
                }
            }
        }
        let mut cals: Vec<Option<Calib>> = vec![None, None];
        let mut all_complete = true;
        let mut groups_done = 0u64;
        let mut injections = 0u64;
        let mut panic_sites: std::collections::BTreeMap<String, u64> = Default::default();
        let mut seen_sigs: std::collections::HashSet<String> = Default::default();
        for (gi, (w, dd, first, persist)) in groups.iter().enumerate() {
            if gi as u32 % cfg.nshards != cfg.shard {
                continue;
            }
            let ci = *first as usize;
            if cals[ci].is_none() {
                match calibrate(*first) {
                    Ok(c) => cals[ci] = Some(c),
                    Err(e) => {
                        d.note(format!("calibration failed (first={first}): {e}"));
                        d.res.discarded += 1;
                        d.res.evaluations += 1;
                        *d.res.classes.entry("discard:calibration".into()).or_default() += 1;
                        all_complete = false;
                        continue;
                    }
                }
            }
            let cal = cals[ci].clone().unwrap();
            let r = run_group(w, *dd, *first, *persist, &cal, None);
            if !r.complete {
                all_complete = false;
            }
            for h in &r.harness {
                d.note(format!("group w={w} d={dd} first={first}: {h}"));
                d.res.discarded += 1;
                d.res.evaluations += 1;
                *d.res.classes.entry("discard:harness".into()).or_default() += 1;
            }
            groups_done += 1;
            let mut fails: Vec<(u64, String, String)> = r.crashes.clone();
            for i in &r.injs {
                injections += 1;
                let case = serde_json::to_value(Inject { w: w.clone(), d: *dd, first: *first, k: i.k, persist: *persist }).unwrap();
                match &i.sig {
                    None => {
                        let mut cl = i.classes.clone();
                        cl.push(format!("history:{}", if *first { "first-query" } else { "used-machine" }));
                        cl.push(format!("failure:{}", if *persist { "persistent" } else { "one-shot" }));
                        d.record_pass(&case, i.nontrivial, &cl);
                    }
                    Some(s) => {
                        if s.starts_with("panic:") {
                            *panic_sites.entry(s.clone()).or_default() += 1;
                        }
                        fails.push((i.k, s.clone(), i.detail.clone()));
                    }
                }
            }
            for (k, sig, detail) in fails {
                d.res.evaluations += 1;
                if is_known_open(&sig) {
                    *d.res.excluded_known.entry(sig).or_default() += 1;
                    continue;
                }
                if seen_sigs.insert(sig.clone()) {
                    let case = serde_json::to_value(Inject { w: w.clone(), d: *dd, first: *first, k, persist: *persist }).unwrap();
                    d.res.failures.push(Failure { signature: sig, detail, case, kind: "inject".into() });
                }
            }
        }
        d.res.extra.insert("groups".into(), json!(groups_done));
        if cfg.shard == 0 {
            d.res.extra.insert("workload_spans_cells".into(), json!(spans));
        }
        d.res.extra.insert("injections".into(), json!(injections));
        for (site, n) in &panic_sites {
            d.res.extra.insert(format!("site {site}"), json!(n));
        }
        d.res.exhaustive = all_complete;
        if !all_complete {
            d.res.extra.insert("incomplete_shards".into(), json!(1u64));
        }
        d.finish()
    }

    fn replay(&self, _kind: &str, case: &Value) -> Verdict {
        let c: Inject = match serde_json::from_value(case.clone()) {
            Ok(c) => c,
            Err(e) => return Verdict::Discard(format!("replay: cannot decode case: {e}")),
        };
        let cal = match calibrate(c.first) {
            Ok(c) => c,
            Err(e) => return Verdict::Discard(format!("calibration failed: {e}")),
        };
        let r = run_group(&c.w, c.d, c.first, c.persist, &cal, Some(vec![c.k]));
        if let Some((_, sig, detail)) = r.crashes.first() {
            return Verdict::fail(sig.clone(), detail.clone());
        }
        if let Some(h) = r.harness.first() {
            return Verdict::Discard(h.clone());
        }
        match r.injs.first() {
            Some(i) => match &i.sig {
                Some(s) => Verdict::fail(s.clone(), i.detail.clone()),
                None => Verdict::Pass { nontrivial: i.nontrivial, classes: i.classes.clone() },
            },
            None => Verdict::Discard("no injection result".into()),
        }
    }
}
