//! C54 — Reified conditionals (library(reif)) are declaratively sound.
//!
//! A goal built from if_/3 (conditions over =/3, dif/3, ','/3, ';'/3; nested if_/3 in the
//! branches), tfilter/3, tpartition/4, memberd_t/3 or tmember/2 is run under every
//! instantiation pattern: each subset S of its variables is bound to ground terms of the
//! universe U = {a, b, c, f(a)} either before or after the call. Every answer (bindings +
//! residual dif/2 goals from copy_term/3) is expanded into its ground instances over U^n and
//! the union must equal the instances of the explicit reading "(Cond, Then) ; (not Cond, Else)"
//! with =/dif (recursive list definitions for the derived predicates), which is evaluated
//! directly in Rust on ground terms. In the all-ground patterns the number of answers must be
//! exactly the number of expected solutions (0 or 1: no redundant answers).
use crate::engine::*;
use crate::session::{Outcome, Session};
use crate::shared::pool::Pooled;
use crate::term::{self, T};
use proptest::prelude::*;
use serde::{Deserialize, Serialize};
use serde_json::Value;
use std::collections::{BTreeSet, HashMap};

const HELPERS: &str = include_str!("../../prolog/c54.pl");
const TOKS: &[&str] = &["p", "q", "r"];
const ATOMS: &[&str] = &["a", "b", "c"];
const RVAR: u32 = 90;

#[derive(Clone, Debug, Serialize, Deserialize, PartialEq)]
pub enum Tm {
    V(u8),
    A(u8),
    F(Box<Tm>),
}

#[derive(Clone, Debug, Serialize, Deserialize, PartialEq)]
pub enum Cond {
    Eq(Tm, Tm),
    Dif(Tm, Tm),
    And(Box<Cond>, Box<Cond>),
    Or(Box<Cond>, Box<Cond>),
}

#[derive(Clone, Debug, Serialize, Deserialize, PartialEq)]
pub enum Br {
    Leaf(Option<(u8, Tm)>, u8),
    If(Cond, Box<Br>, Box<Br>),
}

#[derive(Clone, Debug, Serialize, Deserialize, PartialEq)]
pub enum P2 {
    Eq(Tm),
    Dif(Tm),
    Either(Tm, Tm),
    Neither(Tm, Tm),
}

#[derive(Clone, Debug, Serialize, Deserialize, PartialEq)]
pub enum Goal {
    If(Cond, Br, Br),
    TFilter(P2, Vec<Tm>),
    TPartition(P2, Vec<Tm>),
    MemberdT(Tm, Vec<Tm>),
    TMember(P2, Vec<Tm>),
}

#[derive(Clone, Debug, Serialize, Deserialize)]
pub struct Case {
    pub nvars: u8,
    pub goal: Goal,
    /// index into the universe for every variable (the ground value used when it is pre/post-bound)
    pub rho: Vec<u8>,
}

fn universe() -> Vec<T> {
    vec![term::atom("a"), term::atom("b"), term::atom("c"), term::cmp("f", vec![term::atom("a")])]
}

fn vi(i: u8, n: u8) -> usize {
    (i % n.max(1)) as usize
}

impl Tm {
    fn to_t(&self, n: u8) -> T {
        match self {
            Tm::V(i) => T::Var(vi(*i, n) as u32),
            Tm::A(k) => term::atom(ATOMS[*k as usize % ATOMS.len()]),
            Tm::F(a) => term::cmp("f", vec![a.to_t(n)]),
        }
    }
    fn ground(&self, sigma: &[T], n: u8) -> T {
        match self {
            Tm::V(i) => sigma[vi(*i, n)].clone(),
            Tm::A(k) => term::atom(ATOMS[*k as usize % ATOMS.len()]),
            Tm::F(a) => term::cmp("f", vec![a.ground(sigma, n)]),
        }
    }
    fn vars(&self, n: u8) -> u32 {
        match self {
            Tm::V(i) => 1 << vi(*i, n),
            Tm::A(_) => 0,
            Tm::F(a) => a.vars(n),
        }
    }
}

impl Cond {
    fn to_t(&self, n: u8) -> T {
        match self {
            Cond::Eq(a, b) => term::cmp("=", vec![a.to_t(n), b.to_t(n)]),
            Cond::Dif(a, b) => term::cmp("dif", vec![a.to_t(n), b.to_t(n)]),
            Cond::And(a, b) => term::cmp(",", vec![a.to_t(n), b.to_t(n)]),
            Cond::Or(a, b) => term::cmp(";", vec![a.to_t(n), b.to_t(n)]),
        }
    }
    fn holds(&self, s: &[T], n: u8) -> bool {
        match self {
            Cond::Eq(a, b) => a.ground(s, n) == b.ground(s, n),
            Cond::Dif(a, b) => a.ground(s, n) != b.ground(s, n),
            Cond::And(a, b) => a.holds(s, n) && b.holds(s, n),
            Cond::Or(a, b) => a.holds(s, n) || b.holds(s, n),
        }
    }
    fn vars(&self, n: u8) -> u32 {
        match self {
            Cond::Eq(a, b) | Cond::Dif(a, b) => a.vars(n) | b.vars(n),
            Cond::And(a, b) | Cond::Or(a, b) => a.vars(n) | b.vars(n),
        }
    }
}

impl Br {
    fn to_t(&self, n: u8) -> T {
        match self {
            Br::Leaf(bind, tok) => {
                let r = term::cmp("=", vec![T::Var(RVAR), term::atom(TOKS[*tok as usize % TOKS.len()])]);
                match bind {
                    Some((v, t)) => term::cmp(",", vec![term::cmp("=", vec![T::Var(vi(*v, n) as u32), t.to_t(n)]), r]),
                    None => r,
                }
            }
            Br::If(c, a, b) => term::cmp("if_", vec![c.to_t(n), a.to_t(n), b.to_t(n)]),
        }
    }
    /// the result token under the ground assignment, None = the branch fails
    fn out(&self, s: &[T], n: u8) -> Option<T> {
        match self {
            Br::Leaf(bind, tok) => {
                if let Some((v, t)) = bind {
                    if s[vi(*v, n)] != t.ground(s, n) {
                        return None;
                    }
                }
                Some(term::atom(TOKS[*tok as usize % TOKS.len()]))
            }
            Br::If(c, a, b) => {
                if c.holds(s, n) {
                    a.out(s, n)
                } else {
                    b.out(s, n)
                }
            }
        }
    }
    fn vars(&self, n: u8) -> u32 {
        match self {
            Br::Leaf(Some((v, t)), _) => (1 << vi(*v, n)) | t.vars(n),
            Br::Leaf(None, _) => 0,
            Br::If(c, a, b) => c.vars(n) | a.vars(n) | b.vars(n),
        }
    }
}

impl P2 {
    fn to_t(&self, n: u8) -> T {
        match self {
            P2::Eq(t) => term::cmp("=", vec![t.to_t(n)]),
            P2::Dif(t) => term::cmp("dif", vec![t.to_t(n)]),
            P2::Either(a, b) => term::cmp("c54_either", vec![a.to_t(n), b.to_t(n)]),
            P2::Neither(a, b) => term::cmp("c54_neither", vec![a.to_t(n), b.to_t(n)]),
        }
    }
    fn holds(&self, x: &T, s: &[T], n: u8) -> bool {
        match self {
            P2::Eq(t) => t.ground(s, n) == *x,
            P2::Dif(t) => t.ground(s, n) != *x,
            P2::Either(a, b) => a.ground(s, n) == *x || b.ground(s, n) == *x,
            P2::Neither(a, b) => a.ground(s, n) != *x && b.ground(s, n) != *x,
        }
    }
    fn vars(&self, n: u8) -> u32 {
        match self {
            P2::Eq(t) | P2::Dif(t) => t.vars(n),
            P2::Either(a, b) | P2::Neither(a, b) => a.vars(n) | b.vars(n),
        }
    }
}

fn tms_t(xs: &[Tm], n: u8) -> T {
    term::list(xs.iter().map(|x| x.to_t(n)).collect())
}
fn tms_vars(xs: &[Tm], n: u8) -> u32 {
    xs.iter().fold(0, |a, x| a | x.vars(n))
}

impl Goal {
    /// (goal term, output template)
    fn to_t(&self, n: u8) -> (T, T) {
        let r = T::Var(RVAR);
        match self {
            Goal::If(c, a, b) => (term::cmp("if_", vec![c.to_t(n), a.to_t(n), b.to_t(n)]), r),
            Goal::TFilter(p, xs) => (term::cmp("tfilter", vec![p.to_t(n), tms_t(xs, n), r.clone()]), r),
            Goal::TPartition(p, xs) => (term::cmp("tpartition", vec![p.to_t(n), tms_t(xs, n), r.clone(), T::Var(RVAR + 1)]), term::cmp("-", vec![r, T::Var(RVAR + 1)])),
            Goal::MemberdT(e, xs) => (term::cmp("memberd_t", vec![e.to_t(n), tms_t(xs, n), r.clone()]), r),
            Goal::TMember(p, xs) => (term::cmp("tmember", vec![p.to_t(n), tms_t(xs, n)]), term::atom("ok")),
        }
    }
    /// the explicit reading on a ground assignment: the output, None = no solution
    fn out(&self, s: &[T], n: u8) -> Option<T> {
        match self {
            Goal::If(c, a, b) => {
                if c.holds(s, n) {
                    a.out(s, n)
                } else {
                    b.out(s, n)
                }
            }
            Goal::TFilter(p, xs) => Some(term::list(xs.iter().map(|x| x.ground(s, n)).filter(|x| p.holds(x, s, n)).collect())),
            Goal::TPartition(p, xs) => {
                let g: Vec<T> = xs.iter().map(|x| x.ground(s, n)).collect();
                let ts: Vec<T> = g.iter().filter(|x| p.holds(x, s, n)).cloned().collect();
                let fs: Vec<T> = g.iter().filter(|x| !p.holds(x, s, n)).cloned().collect();
                Some(term::cmp("-", vec![term::list(ts), term::list(fs)]))
            }
            Goal::MemberdT(e, xs) => {
                let eg = e.ground(s, n);
                Some(term::atom(if xs.iter().any(|x| x.ground(s, n) == eg) { "true" } else { "false" }))
            }
            Goal::TMember(p, xs) => {
                if xs.iter().any(|x| p.holds(&x.ground(s, n), s, n)) {
                    Some(term::atom("ok"))
                } else {
                    None
                }
            }
        }
    }
    fn vars(&self, n: u8) -> u32 {
        match self {
            Goal::If(c, a, b) => c.vars(n) | a.vars(n) | b.vars(n),
            Goal::TFilter(p, xs) | Goal::TPartition(p, xs) | Goal::TMember(p, xs) => p.vars(n) | tms_vars(xs, n),
            Goal::MemberdT(e, xs) => e.vars(n) | tms_vars(xs, n),
        }
    }
    fn kind(&self) -> &'static str {
        match self {
            Goal::If(..) => "if_",
            Goal::TFilter(..) => "tfilter",
            Goal::TPartition(..) => "tpartition",
            Goal::MemberdT(..) => "memberd_t",
            Goal::TMember(..) => "tmember",
        }
    }
}

// ---------------------------------------------------------------------------------------------
// No rational trees: reif's =/3 unifies without occurs check, so `X = f(X)` (directly or through
// a chain of equations) would build a cyclic term, which is outside the property (and outside
// the finite universe). A bare variable is therefore only ever paired with a bare variable or a
// ground term; f(Var) is only paired with non-variable terms. With that, every binding is
// var->var or var->ground and no cycle can arise.

impl Tm {
    fn is_bare_var(&self) -> bool {
        matches!(self, Tm::V(_))
    }
    fn grounded(&self) -> Tm {
        match self {
            Tm::V(_) => Tm::A(0),
            Tm::A(k) => Tm::A(*k),
            Tm::F(a) => Tm::F(Box::new(a.grounded())),
        }
    }
    fn has_struct_var(&self) -> bool {
        matches!(self, Tm::F(a) if a.vars(64) != 0)
    }
}

fn fix_group(ts: &mut [&mut Tm]) {
    // f(f(Var)) would allow Var1 -> f(Var2) bindings (and then cycles): only f(Var) keeps a variable
    for t in ts.iter_mut() {
        if let Tm::F(a) = &**t {
            if matches!(**a, Tm::F(_)) && a.vars(64) != 0 {
                **t = t.grounded();
            }
        }
    }
    if ts.iter().any(|t| t.is_bare_var()) {
        for t in ts.iter_mut() {
            if t.has_struct_var() {
                **t = t.grounded();
            }
        }
    }
}

impl Cond {
    fn sanitize(&mut self) {
        match self {
            Cond::Eq(a, b) | Cond::Dif(a, b) => fix_group(&mut [a, b]),
            Cond::And(a, b) | Cond::Or(a, b) => {
                a.sanitize();
                b.sanitize();
            }
        }
    }
}

impl Br {
    fn sanitize(&mut self) {
        match self {
            Br::Leaf(Some((_, t)), _) => {
                fix_group(&mut [t]);
                if t.has_struct_var() {
                    *t = t.grounded();
                }
            }
            Br::Leaf(None, _) => {}
            Br::If(c, a, b) => {
                c.sanitize();
                a.sanitize();
                b.sanitize();
            }
        }
    }
}

impl Goal {
    pub fn sanitize(&mut self) {
        match self {
            Goal::If(c, a, b) => {
                c.sanitize();
                a.sanitize();
                b.sanitize();
            }
            Goal::TFilter(p, xs) | Goal::TPartition(p, xs) | Goal::TMember(p, xs) => {
                let mut all: Vec<&mut Tm> = xs.iter_mut().collect();
                match p {
                    P2::Eq(t) | P2::Dif(t) => all.push(t),
                    P2::Either(a, b) | P2::Neither(a, b) => {
                        all.push(a);
                        all.push(b);
                    }
                }
                fix_group(&mut all);
            }
            Goal::MemberdT(e, xs) => {
                let mut all: Vec<&mut Tm> = xs.iter_mut().collect();
                all.push(e);
                fix_group(&mut all);
            }
        }
    }
}

// ---------------------------------------------------------------------------------------------
// generators

fn tm_strategy() -> BoxedStrategy<Tm> {
    let leaf = prop_oneof![5 => (0u8..4).prop_map(Tm::V), 4 => (0u8..3).prop_map(Tm::A)];
    prop_oneof![
        8 => leaf.clone(),
        2 => leaf.clone().prop_map(|t| Tm::F(Box::new(t))),
        1 => leaf.prop_map(|t| Tm::F(Box::new(Tm::F(Box::new(t))))),
    ]
    .boxed()
}

fn cond_strategy() -> BoxedStrategy<Cond> {
    let atom = prop_oneof![
        3 => (tm_strategy(), tm_strategy()).prop_map(|(a, b)| Cond::Eq(a, b)),
        2 => (tm_strategy(), tm_strategy()).prop_map(|(a, b)| Cond::Dif(a, b)),
    ];
    atom.prop_recursive(2, 5, 2, |inner| {
        prop_oneof![
            (inner.clone(), inner.clone()).prop_map(|(a, b)| Cond::And(Box::new(a), Box::new(b))),
            (inner.clone(), inner.clone()).prop_map(|(a, b)| Cond::Or(Box::new(a), Box::new(b))),
        ]
    })
    .boxed()
}

fn br_strategy() -> BoxedStrategy<Br> {
    let leaf = (proptest::option::weighted(0.3, (0u8..4, tm_strategy())), 0u8..3).prop_map(|(b, t)| Br::Leaf(b, t));
    leaf.prop_recursive(2, 6, 2, |inner| (cond_strategy(), inner.clone(), inner.clone()).prop_map(|(c, a, b)| Br::If(c, Box::new(a), Box::new(b)))).boxed()
}

fn p2_strategy() -> BoxedStrategy<P2> {
    prop_oneof![
        3 => tm_strategy().prop_map(P2::Eq),
        2 => tm_strategy().prop_map(P2::Dif),
        1 => (tm_strategy(), tm_strategy()).prop_map(|(a, b)| P2::Either(a, b)),
        1 => (tm_strategy(), tm_strategy()).prop_map(|(a, b)| P2::Neither(a, b)),
    ]
    .boxed()
}

fn goal_strategy() -> BoxedStrategy<Goal> {
    let xs = proptest::collection::vec(tm_strategy(), 0..=5);
    prop_oneof![
        5 => (cond_strategy(), br_strategy(), br_strategy()).prop_map(|(c, a, b)| Goal::If(c, a, b)),
        2 => (p2_strategy(), xs.clone()).prop_map(|(p, x)| Goal::TFilter(p, x)),
        2 => (p2_strategy(), xs.clone()).prop_map(|(p, x)| Goal::TPartition(p, x)),
        2 => (tm_strategy(), xs.clone()).prop_map(|(e, x)| Goal::MemberdT(e, x)),
        2 => (p2_strategy(), xs).prop_map(|(p, x)| Goal::TMember(p, x)),
    ]
    .boxed()
}

pub fn case_strategy() -> BoxedStrategy<Case> {
    (1u8..=4, goal_strategy(), proptest::collection::vec(0u8..4, 4)).prop_map(|(nvars, mut goal, rho)| {
            goal.sanitize();
            Case { nvars, goal, rho }
        })
        .boxed()
}

// ---------------------------------------------------------------------------------------------
// check

pub struct Env {
    pub p: Pooled,
}

fn setup(s: &mut Session) {
    assert!(s.consult(HELPERS, "c54_helpers"), "c54.pl must load");
}

pub fn mk_env() -> Env {
    Env { p: Pooled::with_setup(&["reif", "dif"], Some(setup)) }
}

const LIMIT: u64 = 20_000_000;

/// one-sided matching of an answer term against a ground term
fn matches(pat: &T, g: &T, b: &mut HashMap<u32, T>) -> bool {
    match (pat, g) {
        (T::Var(v), _) => match b.get(v) {
            Some(x) => x == g,
            None => {
                b.insert(*v, g.clone());
                true
            }
        },
        (T::Atom(a), T::Atom(c)) => a == c,
        (T::Cmp(f, xs), T::Cmp(h, ys)) => f == h && xs.len() == ys.len() && xs.iter().zip(ys).all(|(x, y)| matches(x, y, b)),
        (T::PList(..), _) | (_, T::PList(..)) => pat == g,
        _ => pat == g,
    }
}

fn list_items(t: &T) -> Option<Vec<T>> {
    match t {
        T::Atom(a) if a == "[]" => Some(vec![]),
        T::PList(items, tail) if tail.is_nil() => Some(items.clone()),
        _ => None,
    }
}

struct Answer {
    vs: Vec<T>,
    out: T,
    difs: Vec<(T, T)>,
}

fn parse_answer(t: &T, n: usize) -> Result<Answer, String> {
    let (c, gs) = match t {
        T::Cmp(f, a) if f == "-" && a.len() == 2 => (&a[0], &a[1]),
        _ => return Err(format!("answer shape {}", t.text())),
    };
    let (vs, out) = match c {
        T::Cmp(f, a) if f == "t" && a.len() == 2 => (list_items(&a[0]).ok_or("vs not a list")?, a[1].clone()),
        _ => return Err(format!("answer shape {}", t.text())),
    };
    if vs.len() != n {
        return Err("vs length".into());
    }
    let mut difs = vec![];
    for g in list_items(gs).ok_or("goals not a list")? {
        match &g {
            T::Cmp(c, a) if c == ":" && a.len() == 2 && a[0] == term::atom("dif") => match &a[1] {
                T::Cmp(d, xy) if d == "dif" && xy.len() == 2 => difs.push((xy[0].clone(), xy[1].clone())),
                _ => return Err(format!("residual goal {}", g.text())),
            },
            _ => return Err(format!("residual goal {}", g.text())),
        }
    }
    Ok(Answer { vs, out, difs })
}

pub fn check(env: &mut Env, c: &Case) -> Verdict {
    env.p.begin_case();
    let n = c.nvars.clamp(1, 4);
    let nn = n as usize;
    let u = universe();
    let mut c = c.clone();
    c.goal.sanitize();
    let c = &c;
    let (goal_t, out_t) = c.goal.to_t(n);
    let vs_txt = format!("[{}]", (0..nn).map(|i| format!("V{i}")).collect::<Vec<_>>().join(","));
    let goal_txt = goal_t.text();
    let out_txt = out_t.text();
    // the model: (sigma index, output text)
    let total = u.len().pow(nn as u32);
    let sigma_of = |k: usize| -> Vec<T> { (0..nn).map(|i| u[(k / u.len().pow(i as u32)) % u.len()].clone()).collect() };
    let mut model: BTreeSet<(usize, String)> = BTreeSet::new();
    for k in 0..total {
        let s = sigma_of(k);
        if let Some(o) = c.goal.out(&s, n) {
            model.insert((k, o.norm().text()));
        }
    }
    let rho: Vec<T> = (0..nn).map(|i| u[c.rho.get(i).cloned().unwrap_or(0) as usize % u.len()].clone()).collect();
    let mut max_answers = 0usize;
    let mut undecided_nonground = false;
    for subset in 0..(1u32 << nn) {
        let binds: Vec<String> = (0..nn).filter(|i| (subset >> i) & 1 == 1).map(|i| format!("V{i} = {}", rho[i].text())).collect();
        let expected: BTreeSet<(usize, String)> = model.iter().filter(|(k, _)| { let s = sigma_of(*k); (0..nn).all(|i| (subset >> i) & 1 == 0 || s[i] == rho[i]) }).cloned().collect();
        let modes: &[&str] = if subset == 0 { &["plain"] } else { &["before", "after"] };
        for mode in modes {
            let body = match *mode {
                "plain" => goal_txt.clone(),
                "before" => format!("{}, {}", binds.join(", "), goal_txt),
                _ => format!("{}, {}", goal_txt, binds.join(", ")),
            };
            let q = format!("{body}, copy_term(t({vs_txt},{out_txt}), C, Gs)");
            let o = env.p.s().ask_lim(&q, "C-Gs", LIMIT);
            let sols = match &o {
                Outcome::Panic(m) => return Verdict::fail(format!("panic:{}", m.split_whitespace().next().unwrap_or("?")), format!("{q} panicked: {m}")),
                Outcome::Harness(m) => return Verdict::Discard(format!("harness:{}", m.chars().take(40).collect::<String>())),
                Outcome::Limit => return Verdict::Discard("inference-limit".into()),
                Outcome::Ex(b) => {
                    let f = match o.formal() {
                        Some(T::Cmp(n, _)) => n,
                        Some(T::Atom(n)) => n,
                        _ => "non-iso".into(),
                    };
                    return Verdict::fail(format!("error:{}:{f}", c.goal.kind()), format!("{q} raised {}", b.text()));
                }
                Outcome::Sols(s) => s,
            };
            max_answers = max_answers.max(sols.len());
            if *mode == "plain" && sols.len() >= 2 {
                undecided_nonground = true;
            }
            let mut got: BTreeSet<(usize, String)> = BTreeSet::new();
            let mut per_answer: Vec<usize> = vec![];
            for s in sols {
                let a = match parse_answer(s, nn) {
                    Ok(a) => a,
                    Err(e) => return Verdict::fail(format!("answer-shape:{}", c.goal.kind()), format!("{q}: {e}")),
                };
                let mut cnt = 0;
                for k in 0..total {
                    let sg = sigma_of(k);
                    let mut b: HashMap<u32, T> = HashMap::new();
                    if !(0..nn).all(|i| matches(&a.vs[i], &sg[i], &mut b)) {
                        continue;
                    }
                    let mut ok = true;
                    for (l, r) in &a.difs {
                        let (lg, rg) = (l.subst(&b), r.subst(&b));
                        if !lg.is_ground() || !rg.is_ground() {
                            return Verdict::fail(format!("residual-free-variable:{}", c.goal.kind()), format!("{q}: residual dif({},{}) has a variable that does not occur in the goal's variables (answer {})", l.text(), r.text(), s.text()));
                        }
                        if lg == rg {
                            ok = false;
                            break;
                        }
                    }
                    if !ok {
                        continue;
                    }
                    let og = a.out.subst(&b);
                    if !og.is_ground() {
                        return Verdict::fail(format!("output-not-determined:{}", c.goal.kind()), format!("{q}: output {} is not ground for the instance {:?} (answer {})", og.text(), sg.iter().map(|t| t.text()).collect::<Vec<_>>(), s.text()));
                    }
                    got.insert((k, og.norm().text()));
                    cnt += 1;
                }
                per_answer.push(cnt);
            }
            if got != expected {
                let show = |(k, o): &(usize, String)| format!("{:?}->{o}", sigma_of(*k).iter().map(|t| t.text()).collect::<Vec<_>>());
                if let Some(x) = got.difference(&expected).next() {
                    return Verdict::fail(format!("unsound:{}:{mode}", c.goal.kind()), format!("{q}: the answers admit the ground instance {} which the explicit (Cond,Then ; not Cond,Else) reading does not; answers {}", show(x), o.short()));
                }
                if let Some(x) = expected.difference(&got).next() {
                    return Verdict::fail(format!("incomplete:{}:{mode}", c.goal.kind()), format!("{q}: the ground instance {} of the explicit reading is covered by no answer; answers {}", show(x), o.short()));
                }
            }
            // all-ground call: no redundant answers
            if subset + 1 == (1u32 << nn) && sols.len() != expected.len() {
                return Verdict::fail(format!("redundant-answers:{}:{mode}", c.goal.kind()), format!("{q}: {} answers for a ground call, the explicit reading has {} solution(s); answers {}", sols.len(), expected.len(), o.short()));
            }
        }
    }
    let mut classes: Vec<String> = vec![format!("goal:{}", c.goal.kind()), format!("vars:{nn}")];
    if undecided_nonground {
        classes.push("undecided-at-call-time".into());
    }
    if max_answers >= 4 {
        classes.push("answers>=4".into());
    }
    if model.is_empty() {
        classes.push("no-solution".into());
    }
    if let Goal::If(c0, a, b) = &c.goal {
        if matches!(c0, Cond::And(..) | Cond::Or(..)) {
            classes.push("cond:,/;".into());
        }
        if matches!(a, Br::If(..)) || matches!(b, Br::If(..)) {
            classes.push("nested-if_".into());
        }
    }
    let used = c.goal.vars(n).count_ones();
    if used == 0 {
        classes.push("ground-goal".into());
    }
    let cl: Vec<&str> = classes.iter().map(|s| s.as_str()).collect();
    Verdict::pass(undecided_nonground, &cl)
}

pub struct C54;

impl Prop for C54 {
    fn id(&self) -> &'static str {
        "C54"
    }
    fn rule(&self) -> &'static str {
        "goals if_(Cond,Then,Else) (Cond over =/3 dif/3 ','/3 ';'/3 on terms over V0..V3, a b c, f/1; branches bind a result token, optionally after a unification, or are nested if_/3), tfilter/3, tpartition/4, memberd_t/3, tmember/2 (element conditions =(T), dif(T), a ;/3 closure, a ,/3 closure; lists <= 5); each goal runs with every subset of its <= 4 variables bound to a ground term of {a,b,c,f(a)} before and after the call (<= 31 queries); answers (bindings + copy_term/3 dif goals) are expanded to ground instances over the universe and compared with the explicit reading evaluated in Rust; ground calls must give exactly as many answers as solutions; non-trivial = the unbound call has >= 2 answers (condition undecided at call time); distinct by case encoding"
    }
    fn assumptions(&self) -> Vec<String> {
        vec!["copy_term/3 reports the dif/2 constraints of the goal's variables (C26 checks dif itself)".into(), "equality of answers is semantic over the finite universe {a,b,c,f(a)}^n, not syntactic".into()]
    }
    fn run_shard(&self, cfg: &ShardCfg) -> ShardResult {
        let mut d = Driver::new(cfg, "C54");
        let n = cfg.share(cfg.tier.pick(6_000, 300_000));
        d.run("goal", 0, n, 1000, case_strategy(), &mk_env, &check);
        d.finish()
    }
    fn replay(&self, _kind: &str, case: &Value) -> Verdict {
        replay_case::<Case, Env>(case, &mk_env, &check)
    }
}
