//! Shared proptest strategies.
#![allow(dead_code)]

use crate::num::ipow2;
use crate::term::T;
use dashu::integer::IBig;
use proptest::prelude::*;

/// Monotone index mapping (shrinks towards 0).
pub fn pick<Tv: Clone>(items: &[Tv], raw: u16) -> Tv {
    let i = (raw as usize * items.len()) >> 16;
    items[i].clone()
}

pub fn ibig_from_limbs(neg: bool, limbs: &[u64]) -> IBig {
    let mut v = IBig::ZERO;
    for l in limbs.iter().rev() {
        v = (v << 64) + IBig::from(*l);
    }
    if neg {
        -v
    } else {
        v
    }
}

/// Boundary-biased integers: 0, +-1, +-2^k +- d for k in the representation boundaries,
/// small values, and random 64..4096-bit values.
pub fn int_strategy() -> BoxedStrategy<IBig> {
    let boundary = (any::<u16>(), -3i64..=3, any::<bool>()).prop_map(|(k, d, neg)| {
        let ks = [0u32, 1, 7, 8, 15, 16, 31, 32, 53, 54, 55, 56, 57, 62, 63, 64, 65, 127, 128];
        let k = pick(&ks, k);
        let v = ipow2(k) + IBig::from(d);
        if neg {
            -v
        } else {
            v
        }
    });
    let small = (-20i64..=20).prop_map(IBig::from);
    let medium = any::<i64>().prop_map(IBig::from);
    let fix_edge = (-4i64..=4, any::<bool>()).prop_map(|(d, neg)| {
        // the Fixnum range is -2^55 ..= 2^55-1
        let v = ipow2(55) + IBig::from(d);
        if neg {
            -v
        } else {
            v
        }
    });
    let big = (any::<bool>(), proptest::collection::vec(any::<u64>(), 2..=6)).prop_map(|(neg, limbs)| ibig_from_limbs(neg, &limbs));
    let huge = (any::<bool>(), proptest::collection::vec(any::<u64>(), 7..=64)).prop_map(|(neg, limbs)| ibig_from_limbs(neg, &limbs));
    prop_oneof![
        3 => small,
        4 => boundary,
        2 => fix_edge,
        2 => medium,
        2 => big,
        1 => huge,
    ]
    .boxed()
}

/// Integers of modest magnitude (|v| < 2^20) for counts, indices etc.
pub fn small_int_strategy() -> BoxedStrategy<IBig> {
    prop_oneof![(-20i64..=20).prop_map(IBig::from), (-1_000_000i64..=1_000_000).prop_map(IBig::from)].boxed()
}

/// Any finite f64: uniform over bit patterns plus a boundary set.
pub fn float_strategy() -> BoxedStrategy<f64> {
    let bits = any::<u64>().prop_map(f64::from_bits).prop_filter("finite", |f| f.is_finite());
    let boundary = any::<u16>().prop_map(|k| {
        let vs = [
            0.0,
            -0.0,
            1.0,
            -1.0,
            0.5,
            1.5,
            2.5,
            -2.5,
            f64::MIN_POSITIVE,
            5e-324,
            -5e-324,
            f64::MAX,
            f64::MIN,
            f64::EPSILON,
            9007199254740992.0,
            9007199254740993.0,
            9007199254740991.0,
            -9007199254740992.0,
            36028797018963968.0,
            36028797018963967.0,
            -36028797018963968.0,
            9223372036854775808.0,
            -9223372036854775808.0,
            18446744073709551616.0,
            1e308,
            1.0e154,
            1.0e155,
            0.1,
            0.3,
            1.0e-300,
            3.141592653589793,
            2.718281828459045,
            709.0,
            710.0,
            -745.0,
            -746.0,
        ];
        pick(&vs, k)
    });
    let smallish = (-1000i32..=1000, 0u8..=8).prop_map(|(n, s)| (n as f64) / (1u32 << s) as f64);
    let intlike = any::<i64>().prop_map(|v| v as f64);
    prop_oneof![4 => bits, 3 => boundary, 3 => smallish, 1 => intlike].boxed()
}

/// Atom texts: tricky vocabulary + random.
pub fn atom_text_strategy() -> BoxedStrategy<String> {
    let vocab = any::<u16>().prop_map(|k| {
        let vs = [
            "a", "b", "foo", "bar", "[]", "{}", "!", ";", ",", "|", "", "'", "''", "\\", "+", "-", "*", "-->", "\\+", "/*", ".", "..", "=..", ":-", "?-", "is", "mod", "rem", "dynamic", "1", "X", "_", "_x", "aB_1", "a b", "a\nb", "\t", "\0", "a\0b", "é", "αβγ", "日本語", "😀", "e\u{301}", "abcdef", "abcdefg", "ééé", "éééé", "hello world", "[", "]", "(", ")", "{", "}", "\"", "`", "a.b", "end_of_file", "nil", "true", "fail", "=", "<", "@", "#", "$", "&", "^", "~", "?", ":", "/", "//", "0", "0'a", "a'b", "\u{7f}", "\u{80}", "\u{a0}", "\u{feff}",
        ];
        pick(&vs, k).to_string()
    });
    let random_ascii = proptest::collection::vec(0x20u8..0x7f, 0..=9).prop_map(|v| String::from_utf8(v).unwrap());
    let random_uni = proptest::collection::vec(any::<char>(), 0..=5).prop_map(|v| v.into_iter().collect::<String>());
    let ident = "[a-z][a-zA-Z0-9_]{0,8}".prop_map(|s| s);
    prop_oneof![4 => vocab, 2 => random_ascii, 1 => random_uni, 3 => ident].boxed()
}

/// Plain lowercase identifiers from a small vocabulary (for programs).
pub fn ident_strategy() -> BoxedStrategy<String> {
    any::<u16>().prop_map(|k| pick(&["a", "b", "c", "d", "foo", "bar", "baz", "f", "g", "h"], k).to_string()).boxed()
}

#[derive(Clone, Debug)]
pub struct TermCfg {
    pub depth: u32,
    pub size: u32,
    pub nvars: u32,
    pub tricky_atoms: bool,
    pub floats: bool,
    pub bigints: bool,
    pub strings: bool,
    pub rationals: bool,
    pub partial_lists: bool,
}

impl Default for TermCfg {
    fn default() -> Self {
        TermCfg { depth: 4, size: 30, nvars: 4, tricky_atoms: false, floats: true, bigints: true, strings: true, rationals: false, partial_lists: true }
    }
}

pub fn string_content_strategy() -> BoxedStrategy<String> {
    let ascii = proptest::collection::vec(0x20u8..0x7f, 0..=24).prop_map(|v| String::from_utf8(v).unwrap());
    let mixed = proptest::collection::vec(prop_oneof![Just('a'), Just('b'), Just('é'), Just('λ'), Just('日'), Just('😀'), Just(' '), Just('\n'), Just('"'), Just('\\'), Just('\'')], 0..=17).prop_map(|v| v.into_iter().collect::<String>());
    prop_oneof![ascii, mixed].boxed()
}

pub fn term_strategy(cfg: TermCfg) -> BoxedStrategy<T> {
    let atoms: BoxedStrategy<String> = if cfg.tricky_atoms { atom_text_strategy() } else { ident_strategy() };
    let functors: BoxedStrategy<String> = if cfg.tricky_atoms { atom_text_strategy() } else { ident_strategy() };
    let mut leaves: Vec<(u32, BoxedStrategy<T>)> = vec![
        (4, atoms.clone().prop_map(T::Atom).boxed()),
        (3, (-5i64..=5).prop_map(|i| T::Int(IBig::from(i))).boxed()),
        (1, Just(crate::term::nil()).boxed()),
    ];
    if cfg.nvars > 0 {
        leaves.push((4, (0..cfg.nvars).prop_map(T::Var).boxed()));
    }
    if cfg.bigints {
        leaves.push((2, int_strategy().prop_map(T::Int).boxed()));
    }
    if cfg.floats {
        leaves.push((2, float_strategy().prop_map(T::Float).boxed()));
    }
    if cfg.strings {
        leaves.push((2, string_content_strategy().prop_map(T::Str).boxed()));
    }
    if cfg.rationals {
        leaves.push((1, (int_strategy(), 1u32..=50).prop_map(|(n, d)| { let (n, d) = crate::num::rat_norm(n, IBig::from(d)); if d == IBig::ONE { T::Int(n) } else { T::Rat(n, d) } }).boxed()));
    }
    let leaf = proptest::strategy::Union::new_weighted(leaves).boxed();
    let partial = cfg.partial_lists;
    leaf.prop_recursive(cfg.depth, cfg.size, 4, move |inner| {
        let functors = functors.clone();
        let cmpd = (functors, proptest::collection::vec(inner.clone(), 1..=3)).prop_map(|(n, args)| T::Cmp(n, args));
        let lst = proptest::collection::vec(inner.clone(), 1..=4).prop_map(|items| T::PList(items, Box::new(crate::term::nil())));
        if partial {
            let plst = (proptest::collection::vec(inner.clone(), 1..=3), inner.clone()).prop_map(|(items, tail)| T::PList(items, Box::new(tail)));
            prop_oneof![4 => cmpd, 2 => lst, 1 => plst].boxed()
        } else {
            prop_oneof![4 => cmpd, 2 => lst].boxed()
        }
    })
    .boxed()
}
