//! Exact numeric helpers shared by the arithmetic properties.
#![allow(dead_code)]

use crate::term::T;
use dashu::base::{Abs, BitTest, Gcd, Sign, UnsignedAbs};
use dashu::integer::{IBig, UBig};
use std::cmp::Ordering;

pub fn ipow2(n: u32) -> IBig {
    IBig::ONE << (n as usize)
}

pub fn rat_norm(n: IBig, d: IBig) -> (IBig, IBig) {
    assert!(d != IBig::ZERO);
    let g: UBig = n.clone().unsigned_abs().gcd(d.clone().unsigned_abs());
    let g = IBig::from(g);
    let (mut n, mut d) = if g > IBig::ONE { (n / &g, d / &g) } else { (n, d) };
    if d < IBig::ZERO {
        n = -n;
        d = -d;
    }
    (n, d)
}

fn as_frac(t: &T) -> (IBig, IBig) {
    match t {
        T::Int(i) => (i.clone(), IBig::ONE),
        T::Rat(n, d) => rat_norm(n.clone(), d.clone()),
        _ => panic!("as_frac: not exact"),
    }
}

/// Exact comparison of integers / rationals.
pub fn cmp_exact(a: &T, b: &T) -> Ordering {
    let (an, ad) = as_frac(a);
    let (bn, bd) = as_frac(b);
    (an * bd).cmp(&(bn * ad))
}

/// floor division and modulus on IBig (sign of modulus follows divisor)
pub fn div_floor(a: &IBig, b: &IBig) -> IBig {
    let q = a / b; // truncating
    let r = a - &q * b;
    if r != IBig::ZERO && ((r < IBig::ZERO) != (*b < IBig::ZERO)) {
        q - IBig::ONE
    } else {
        q
    }
}

pub fn mod_floor(a: &IBig, b: &IBig) -> IBig {
    a - div_floor(a, b) * b
}

pub fn bit_len(a: &IBig) -> usize {
    a.clone().unsigned_abs().bit_len()
}

pub fn is_neg(a: &IBig) -> bool {
    a.sign() == Sign::Negative
}

pub fn iabs(a: &IBig) -> IBig {
    a.clone().abs()
}

pub fn igcd(a: &IBig, b: &IBig) -> IBig {
    if *a == IBig::ZERO {
        return iabs(b);
    }
    if *b == IBig::ZERO {
        return iabs(a);
    }
    IBig::from(a.clone().unsigned_abs().gcd(b.clone().unsigned_abs()))
}

pub fn isign(a: &IBig) -> IBig {
    if *a > IBig::ZERO {
        IBig::ONE
    } else if *a < IBig::ZERO {
        IBig::NEG_ONE
    } else {
        IBig::ZERO
    }
}

/// Correctly rounded (nearest-even) conversion of an exact integer to f64; `None` on overflow.
pub fn ibig_to_f64(a: &IBig) -> Option<f64> {
    let neg = is_neg(a);
    let m = a.clone().unsigned_abs();
    let bits = m.bit_len();
    if bits == 0 {
        return Some(0.0);
    }
    if bits <= 64 {
        let v: u64 = u64::try_from(&m).unwrap();
        let f = v as f64; // Rust's u64->f64 is round-to-nearest-even
        return Some(if neg { -f } else { f });
    }
    if bits > 1024 {
        return None;
    }
    // keep 64 top bits plus sticky
    let shift = bits - 64;
    let top: u64 = u64::try_from(&(&m >> shift)).unwrap();
    let rest_nonzero = (&m & ((UBig::ONE << shift) - UBig::ONE)) != UBig::ZERO;
    // round top (64 bits) to 53 bits nearest-even with sticky
    let low = top & 0x7ff; // 11 bits dropped
    let mut mant = top >> 11;
    let half = 0x400u64;
    if low > half || (low == half && (rest_nonzero || (mant & 1) == 1)) {
        mant += 1;
    }
    let mut exp = shift as i32 + 11;
    if mant == (1u64 << 53) {
        mant >>= 1;
        exp += 1;
    }
    // value = mant * 2^exp, mant < 2^53
    if exp + 53 > 1024 {
        return None;
    }
    let f = (mant as f64) * 2f64.powi(exp);
    if !f.is_finite() {
        return None;
    }
    Some(if neg { -f } else { f })
}

/// Exact value of a finite f64 as (mantissa, exp2): f = m * 2^e
pub fn f64_decompose(f: f64) -> (IBig, i32) {
    assert!(f.is_finite());
    let bits = f.to_bits();
    let neg = (bits >> 63) != 0;
    let e = ((bits >> 52) & 0x7ff) as i32;
    let frac = bits & ((1u64 << 52) - 1);
    let (m, e2) = if e == 0 { (frac, -1074) } else { (frac | (1u64 << 52), e - 1075) };
    let m = IBig::from(m);
    (if neg { -m } else { m }, e2)
}

/// Exact comparison of an integer with a finite double.
pub fn cmp_int_f64_exact(a: &IBig, f: f64) -> Ordering {
    let (m, e) = f64_decompose(f);
    if e >= 0 {
        a.cmp(&(m << (e as usize)))
    } else {
        (a << ((-e) as usize)).cmp(&m)
    }
}

/// Exact integer value of a finite double that is integral; None otherwise.
pub fn f64_to_ibig_exact(f: f64) -> Option<IBig> {
    if !f.is_finite() || f.fract() != 0.0 {
        return None;
    }
    let (m, e) = f64_decompose(f);
    if e >= 0 {
        Some(m << (e as usize))
    } else {
        let d = IBig::ONE << ((-e) as usize);
        Some(m / d)
    }
}
