//! Global allocator with a canary red zone after every block (DESIGN §2.6).
//! `machine/heap.rs` allocates through std::alloc, so a write past the reserved capacity of a
//! term heap lands in the canary and is detected when the block is reallocated or freed.
#![allow(dead_code)]

use std::alloc::{GlobalAlloc, Layout, System};
use std::sync::atomic::{AtomicU64, AtomicUsize, Ordering};

pub const RED_ZONE: usize = 64;
const CANARY: u8 = 0xA5;

static CORRUPTIONS: AtomicU64 = AtomicU64::new(0);
static LAST_SIZE: AtomicUsize = AtomicUsize::new(0);
static LAST_OFFSET: AtomicUsize = AtomicUsize::new(0);

pub struct Guard;

#[inline]
unsafe fn fill(p: *mut u8, size: usize) {
    std::ptr::write_bytes(p.add(size), CANARY, RED_ZONE);
}

#[inline]
unsafe fn verify(p: *mut u8, size: usize) {
    let rz = std::slice::from_raw_parts(p.add(size), RED_ZONE);
    if let Some(i) = rz.iter().position(|b| *b != CANARY) {
        CORRUPTIONS.fetch_add(1, Ordering::SeqCst);
        LAST_SIZE.store(size, Ordering::SeqCst);
        LAST_OFFSET.store(i, Ordering::SeqCst);
    }
}

#[inline]
fn padded(layout: Layout) -> Layout {
    // size + RED_ZONE cannot overflow for any layout the program really allocates
    unsafe { Layout::from_size_align_unchecked(layout.size() + RED_ZONE, layout.align()) }
}

unsafe impl GlobalAlloc for Guard {
    unsafe fn alloc(&self, layout: Layout) -> *mut u8 {
        let p = System.alloc(padded(layout));
        if !p.is_null() {
            fill(p, layout.size());
        }
        p
    }
    unsafe fn alloc_zeroed(&self, layout: Layout) -> *mut u8 {
        let p = System.alloc_zeroed(padded(layout));
        if !p.is_null() {
            fill(p, layout.size());
        }
        p
    }
    unsafe fn dealloc(&self, p: *mut u8, layout: Layout) {
        verify(p, layout.size());
        System.dealloc(p, padded(layout));
    }
    unsafe fn realloc(&self, p: *mut u8, layout: Layout, new_size: usize) -> *mut u8 {
        verify(p, layout.size());
        let q = System.realloc(p, padded(layout), new_size + RED_ZONE);
        if !q.is_null() {
            fill(q, new_size);
        }
        q
    }
}

/// Number of blocks whose red zone was found overwritten since the last call, with the size of
/// the last such block and the offset (past its end) of the first overwritten byte.
pub fn take_corruptions() -> Option<(u64, usize, usize)> {
    let n = CORRUPTIONS.swap(0, Ordering::SeqCst);
    if n == 0 {
        None
    } else {
        Some((n, LAST_SIZE.load(Ordering::SeqCst), LAST_OFFSET.load(Ordering::SeqCst)))
    }
}
