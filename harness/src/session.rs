//! Prolog session layer over a real `scryer_prolog::Machine`.
#![allow(dead_code)]

use crate::term::{decode, T};
use scryer_prolog::{LeafAnswer, Machine, MachineBuilder, StreamConfig, Term};
use std::panic::{catch_unwind, AssertUnwindSafe};

pub const SUPPORT_PL: &str = include_str!("../prolog/support.pl");

/// Outcome of running one goal through `vp_run/3`.
#[derive(Clone, Debug, PartialEq)]
pub enum Outcome {
    /// all solutions (encoded template instances); empty = failure
    Sols(Vec<T>),
    /// uncaught exception (the ball)
    Ex(T),
    /// inference limit hit (only from `ask_lim`)
    Limit,
    /// Rust panic inside the machine (message, location)
    Panic(String),
    /// the harness could not interpret what came back (never a verdict on scryer by itself)
    Harness(String),
}

impl Outcome {
    pub fn short(&self) -> String {
        match self {
            Outcome::Sols(v) => {
                let mut s = String::from("sols[");
                for (i, t) in v.iter().enumerate() {
                    if i > 0 {
                        s.push_str("; ");
                    }
                    if i >= 8 {
                        s.push_str("...");
                        break;
                    }
                    s.push_str(&t.text());
                }
                s.push(']');
                s
            }
            Outcome::Ex(t) => format!("ex({})", t.text()),
            Outcome::Limit => "limit".into(),
            Outcome::Panic(m) => format!("PANIC {m}"),
            Outcome::Harness(m) => format!("HARNESS {m}"),
        }
    }
    /// the Formal of an `error(Formal, Context)` ball
    pub fn formal(&self) -> Option<T> {
        match self {
            Outcome::Ex(T::Cmp(n, args)) if n == "error" && args.len() == 2 => Some(args[0].clone()),
            _ => None,
        }
    }
    pub fn is_fail(&self) -> bool {
        matches!(self, Outcome::Sols(v) if v.is_empty())
    }
}

thread_local! {
    static LAST_PANIC: std::cell::RefCell<Option<String>> = const { std::cell::RefCell::new(None) };
}

/// Normalised panic location: `harness:src/...` for the harness's own files,
/// `repo:src/...` for scryer-prolog sources, `dep:<crate-dir>/src/...` for other crates.
pub fn norm_loc(file: &str, line: u32) -> String {
    if file.starts_with("src/") {
        return format!("harness:{file}:{line}");
    }
    if let Some(i) = file.find("/harness/src/") {
        return format!("harness:{}:{line}", &file[i + "/harness/".len()..]);
    }
    if file.contains("/.cargo/registry/") || file.contains("/rustc/") || file.contains("/rustlib/") {
        let parts: Vec<&str> = file.split('/').collect();
        if let Some(i) = parts.iter().rposition(|p| *p == "src") {
            if i > 0 {
                return format!("dep:{}:{line}", parts[i - 1..].join("/"));
            }
        }
        return format!("dep:{file}:{line}");
    }
    match file.rfind("/src/") {
        Some(i) => format!("repo:{}:{line}", &file[i + 1..]),
        None => format!("repo:{file}:{line}"),
    }
}

/// Install a panic hook that records message+location instead of printing.
pub fn install_quiet_panic_hook() {
    std::panic::set_hook(Box::new(|info| {
        // the location used in signatures carries no line number (a line shift elsewhere in the file
        // must not turn a known panic into a new one); the line goes into the message
        let loc = info.location().map(|l| norm_loc(l.file(), l.line())).unwrap_or_default();
        let (loc, line) = match loc.rsplit_once(':') {
            Some((a, b)) if b.chars().all(|c| c.is_ascii_digit()) => (a.to_string(), b.to_string()),
            _ => (loc.clone(), String::new()),
        };
        let msg = if let Some(s) = info.payload().downcast_ref::<&str>() {
            s.to_string()
        } else if let Some(s) = info.payload().downcast_ref::<String>() {
            s.clone()
        } else {
            "<non-string panic>".to_string()
        };
        let short: String = msg.chars().take(300).collect();
        LAST_PANIC.with(|p| *p.borrow_mut() = Some(format!("{loc} line {line}: {short}")));
        if std::env::var("VERIF_VERBOSE_PANIC").is_ok() {
            eprintln!("panic: {loc} {short}");
        }
    }));
}

pub fn take_last_panic() -> String {
    LAST_PANIC.with(|p| p.borrow_mut().take()).unwrap_or_else(|| "<unknown panic>".into())
}

pub struct Session {
    pub machine: Machine,
    pub poisoned: bool,
    /// everything sent to the machine since creation (for state-dependent replays)
    pub log: Vec<String>,
    pub queries: u64,
    libs: Vec<String>,
}

impl Session {
    pub fn new(libs: &[&str]) -> Session {
        let machine = MachineBuilder::default().with_streams(StreamConfig::in_memory()).build();
        Self::with_machine(machine, libs)
    }

    pub fn with_machine(machine: Machine, libs: &[&str]) -> Session {
        let mut s = Session { machine, poisoned: false, log: vec![], queries: 0, libs: libs.iter().map(|s| s.to_string()).collect() };
        s.machine.consult_module_string("user", SUPPORT_PL);
        for l in libs {
            let o = s.ask_raw(&format!("use_module(library({l}))"), "[]");
            if !matches!(o, Outcome::Sols(ref v) if v.len() == 1) {
                panic!("could not load library {l}: {}", o.short());
            }
        }
        let o = s.ask_raw("vp_loaded(X)", "X");
        assert!(matches!(o, Outcome::Sols(ref v) if v.len() == 1), "support.pl failed to load: {}", o.short());
        s.log.clear();
        s
    }

    pub fn libs(&self) -> Vec<String> {
        self.libs.clone()
    }

    fn run_wrapped(&mut self, q: &str) -> Outcome {
        self.queries += 1;
        self.log.push(q.to_string());
        if self.poisoned {
            return Outcome::Harness("session poisoned by an earlier panic".into());
        }
        let machine = &mut self.machine;
        let res = catch_unwind(AssertUnwindSafe(|| {
            let mut it = machine.run_query(q);
            let first = it.next();
            drop(it);
            first
        }));
        match res {
            Err(_) => {
                self.poisoned = true;
                Outcome::Panic(take_last_panic())
            }
            Ok(None) => Outcome::Harness("no answer from wrapper".into()),
            Ok(Some(Err(t))) => Outcome::Harness(format!("wrapper raised {t:?}")),
            Ok(Some(Ok(LeafAnswer::LeafAnswer { bindings, .. }))) => match bindings.get("R") {
                Some(t) => decode_result(t),
                None => Outcome::Harness("no binding for R".into()),
            },
            Ok(Some(Ok(other))) => Outcome::Harness(format!("wrapper answered {other:?}")),
        }
    }

    /// Run `goal` (Prolog text without final dot), collect all instances of `template`.
    pub fn ask_raw(&mut self, goal: &str, template: &str) -> Outcome {
        let q = format!("vp_run(({goal}), {template}, R).");
        self.run_wrapped(&q)
    }

    pub fn ask(&mut self, goal: &str, template: &str) -> Outcome {
        self.ask_raw(goal, template)
    }

    pub fn ask_once(&mut self, goal: &str, template: &str) -> Outcome {
        let q = format!("vp_once(({goal}), {template}, R).");
        self.run_wrapped(&q)
    }

    pub fn ask_n(&mut self, goal: &str, template: &str, n: usize) -> Outcome {
        let q = format!("vp_run_n(({goal}), {template}, {n}, R).");
        self.run_wrapped(&q)
    }

    pub fn ask_lim(&mut self, goal: &str, template: &str, limit: u64) -> Outcome {
        let q = format!("vp_run_lim(({goal}), {template}, {limit}, R).");
        self.run_wrapped(&q)
    }

    /// Consult program text into module user; verifies through a sentinel that the load
    /// went through. Returns false when the text was rejected (harness input problem).
    pub fn consult(&mut self, text: &str, sentinel: &str) -> bool {
        self.log.push(format!("%consult\n{text}"));
        let full = format!("{text}\n'$vp_sentinel'({sentinel}).\n");
        let machine = &mut self.machine;
        let res = catch_unwind(AssertUnwindSafe(|| {
            machine.consult_module_string("user", full);
        }));
        if res.is_err() {
            self.poisoned = true;
            let _ = take_last_panic();
            return false;
        }
        let o = self.ask_raw(&format!("'$vp_sentinel'({sentinel})"), "[]");
        match o {
            Outcome::Sols(v) => !v.is_empty(),
            Outcome::Panic(_) => false,
            _ => false,
        }
    }
}

fn decode_result(t: &Term) -> Outcome {
    match t {
        Term::Compound(n, args) if n == "ok" && args.len() == 1 => {
            let items: Vec<&Term> = match &args[0] {
                Term::List(v) => v.iter().collect(),
                Term::Atom(a) if a == "[]" => vec![],
                Term::String(s) if s.is_empty() => vec![],
                other => return Outcome::Harness(format!("ok/1 arg not a list: {other:?}")),
            };
            let mut out = Vec::with_capacity(items.len());
            for it in items {
                match decode(it) {
                    Ok(t) => out.push(t.norm()),
                    Err(e) => return Outcome::Harness(e),
                }
            }
            Outcome::Sols(out)
        }
        Term::Compound(n, args) if n == "ex" && args.len() == 1 => match decode(&args[0]) {
            Ok(t) => Outcome::Ex(t.norm()),
            Err(e) => Outcome::Harness(e),
        },
        Term::Atom(a) if a == "limit" => Outcome::Limit,
        other => Outcome::Harness(format!("unexpected result {other:?}")),
    }
}
