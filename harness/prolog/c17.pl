% C17 helpers: read every clause of a file with read_term/3, reifying each outcome.
%   t(Term) | syn(Kind) | other(Ball) | eof | limit

:- use_module(library(charsio)).

c17_read_file(File, Max, Rs) :-
    open(File, read, S),
    c17_loop(S, Max, Rs),
    close(S).

c17_loop(S, N, Rs) :-
    (   N =< 0 -> Rs = [limit]
    ;   catch(read_term(S, T, []), E, true),
        (   nonvar(E) ->
            c17_class(E, R),
            Rs = [R|Rs1],
            (   R = other(_) -> Rs1 = []
            ;   N1 is N - 1, c17_loop(S, N1, Rs1)
            )
        ;   T == end_of_file -> Rs = [eof]
        ;   Rs = [t(T)|Rs1], N1 is N - 1, c17_loop(S, N1, Rs1)
        )
    ).

c17_class(E, R) :-
    (   nonvar(E), E = error(F, _), nonvar(F), F = syntax_error(K) -> R = syn(K)
    ;   R = other(E)
    ).

% one clause text alone, from a list of characters
c17_alone(Chars, R) :-
    catch(( read_term_from_chars(Chars, T, []), R = t(T) ), E, c17_class(E, R)).

c17_loaded(yes).

% The harness must not receive raw read terms as bindings of query variables (the public answer
% conversion is fragile, see C28): results travel in the tagged encoding of support.pl.
c17_read_file_enc(File, Max, Enc) :- c17_read_file(File, Max, Rs), vp_enc(Rs, Enc).
c17_alone_enc(CharsEnc, Enc) :- vp_dec(CharsEnc, Cs), c17_alone(Cs, R), vp_enc(R, Enc).
