% Helpers of the printer/reader checks (C15, C55, C16, C45). Consulted into module user
% after support.pl.

:- use_module(library(charsio)).
:- use_module(library(lists)).
:- use_module(library(iso_ext)).

% ---------------------------------------------------------------------------
% vpp_dec(+Mode, +Enc, -Term): like vp_dec/2. Mode = pstr builds s(Codes) and runs of
% one-character atoms at the front of a list as packed (partial) strings, Mode = cells
% builds ordinary list cells.

vpp_dec(Mode, E, T) :- vpp_dec_(E, T, Mode, [], _).

vpp_dec_(E, T, M, B0, B) :-
    (   E = v(N) -> vp_binding(N, B0, B, T)
    ;   E = i(I) -> T = I, B = B0
    ;   E = f(F) -> T = F, B = B0
    ;   E = r(N, D) -> T is N rdiv D, B = B0
    ;   E = a(Cs) -> atom_codes(T, Cs), B = B0
    ;   E = s(Cs) -> vp_codes_chars(Cs, T0), vpp_string(M, T0, [], T), B = B0
    ;   E = l(Items, Tail) ->
        vpp_dec_(Tail, TT, M, B0, B1),
        (   M == pstr, vpp_char_prefix(Items, Chars, Rest), Chars = [_|_] ->
            vpp_dec_items(Rest, TT, T1, M, B1, B),
            vpp_string(M, Chars, T1, T)
        ;   vpp_dec_items(Items, TT, T, M, B1, B)
        )
    ;   E = c(Cs, Args) ->
        atom_codes(Name, Cs),
        vpp_dec_all(Args, TArgs, M, B0, B),
        T =.. [Name|TArgs]
    ).

vpp_string(cells, Chars, Tail, T) :- append(Chars, Tail, T).
vpp_string(pstr, Chars, Tail, T) :-
    (   Chars == [] -> T = Tail
    ;   member(C, Chars), char_code(C, 0) -> append(Chars, Tail, T)
    ;   partial_string(Chars, T, Tail)
    ).

vpp_char_prefix([a([C])|Es], [Ch|Chs], Rest) :- !, char_code(Ch, C), vpp_char_prefix(Es, Chs, Rest).
vpp_char_prefix(Es, [], Es).

vpp_dec_items([], TT, TT, _, B, B).
vpp_dec_items([E|Es], TT, [T|Ts], M, B0, B) :-
    vpp_dec_(E, T, M, B0, B1),
    vpp_dec_items(Es, TT, Ts, M, B1, B).

vpp_dec_all([], [], _, B, B).
vpp_dec_all([E|Es], [T|Ts], M, B0, B) :-
    vpp_dec_(E, T, M, B0, B1),
    vpp_dec_all(Es, Ts, M, B1, B).

% ---------------------------------------------------------------------------
% Writers. vpp_emit(+Mode, +Enc, +Writers): decode the term and write it to user_output
% with every listed *stream* writer, each text followed by the separator character 0x01
% (a control character is always written as an escape inside quoted items); then flush.

vpp_emit(Mode, Enc, Ws) :-
    vpp_dec(Mode, Enc, T),
    vpp_emit_(Ws, T),
    flush_output.

vpp_emit_([], _).
vpp_emit_([W|Ws], T) :-
    catch(vpp_stream_write(W, T), E, (put_char('\x2\'), write_canonical(E))),
    put_char('\x1\'),
    vpp_emit_(Ws, T).

vpp_stream_write(writeq, T) :- writeq(T).
vpp_stream_write(write, T) :- write(T).
vpp_stream_write(write_canonical, T) :- write_canonical(T).
vpp_stream_write(print, T) :- print(T).
vpp_stream_write(wt(Opts), T) :- write_term(T, Opts).

% vpp_readback(+ListOfCodeLists, -Results): read every text back (a space and an end
% token are appended). Result: ok(Term) | ex(Ball)
vpp_readback([], []).
vpp_readback([Cs|Css], [R|Rs]) :-
    vpp_read1(Cs, R),
    vpp_readback(Css, Rs).

vpp_read1(Codes, R) :-
    vp_codes_chars(Codes, Chars0),
    append(Chars0, " .", Chars),
    catch(( read_term_from_chars(Chars, T, []), R = ok(T) ), E, R = ex(E)).

% vpp_chars_rt(+Mode, +Enc, +OptionLists, -Original, -Results): the in-memory writer
% write_term_to_chars/3 with each option list, read back inside the same query.
% Result: w(TextChars, ok(Term)|ex(Ball)) | wex(Ball)
vpp_chars_rt(Mode, Enc, Optss, T, Rs) :-
    vpp_dec(Mode, Enc, T),
    vpp_chars_rt_(Optss, T, Rs).

vpp_chars_rt_([], _, []).
vpp_chars_rt_([Opts|Os], T, [R|Rs]) :-
    catch(( write_term_to_chars(T, Opts, Cs),
            append(Cs, " .", Cs1),
            catch(( read_term_from_chars(Cs1, T2, []), R0 = ok(T2) ), E, R0 = ex(E)),
            R = w(Cs, R0) ),
          E2, R = wex(E2)),
    vpp_chars_rt_(Os, T, Rs).

vpp_ops(L) :- findall(o(P, S, N), current_op(P, S, N), L).

% install operator declarations, ignoring the ones op/3 rejects
vpp_install_ops([]).
vpp_install_ops([o(P, S, NCs)|Os]) :-
    atom_codes(N, NCs),
    catch(op(P, S, N), _, true),
    vpp_install_ops(Os).

vpp_loaded(printer).

% ---------------------------------------------------------------------------
% C16 helpers. vpn_outcome(Goal, Var, R): R = ok(Var) | failed | ex(Ball)
vpn_outcome(G, V, R) :-
    catch(( call(G) -> R = ok(V) ; R = failed ), E, R = ex(E)).

% a spelling (code list) seen by the reader, number_codes/2 and number_chars/2
vpn_spell(Codes, r(R1, R2, R3)) :-
    vp_codes_chars(Codes, Chars),
    % a newline before the end token: the spelling may end in a % comment
    append(Chars, "\n.", Cs1),
    vpn_outcome(read_term_from_chars(Cs1, T, []), T, R1),
    vpn_outcome(number_codes(N2, Codes), N2, R2),
    vpn_outcome(number_chars(N3, Chars), N3, R3).

% a number converted to text and back
vpn_number(N, r(N, C1, C2, C3)) :-
    vpn_outcome(( number_codes(N, Codes), vpn_outcome(number_codes(B1, Codes), B1, RB1) ), t(Codes, RB1), C1),
    vpn_outcome(( number_chars(N, Chars), vpn_outcome(number_chars(B2, Chars), B2, RB2) ), t(Chars, RB2), C2),
    vpn_outcome(( write_term_to_chars(N, [quoted(true)], W), append(W, " .", W1),
                  vpn_outcome(read_term_from_chars(W1, B3, []), B3, RB3) ), t(W, RB3), C3).

% ---------------------------------------------------------------------------
% C45 helpers. vpr_read(+Src, +Codes, +OptSpec, +Pre, -R)
%   Src: chars | file3(Path) | file2(Path); OptSpec: list of v / n / s (order of the options);
%   Pre: none | vars(N) | names(ListOfNameCodeLists); R: ok(r(T,Vs,VNs,Ss)) | failed | ex(Ball)
vpr_read(Src, Codes, OptSpec, Pre, R) :-
    vpr_options(OptSpec, Vs, VNs, Ss, Opts),
    vpr_prebind(Pre, Vs, VNs),
    vpr_goal(Src, Codes, T, Opts, G),
    vpn_outcome(G, r(T, Vs, VNs, Ss), R).

vpr_options([], _, _, _, []).
vpr_options([O|Os], Vs, VNs, Ss, [Opt|Opts]) :-
    (   O == v -> Opt = variables(Vs)
    ;   O == n -> Opt = variable_names(VNs)
    ;   Opt = singletons(Ss)
    ),
    vpr_options(Os, Vs, VNs, Ss, Opts).

vpr_prebind(none, _, _).
vpr_prebind(vars(N), Vs, _) :- length(Vs, N).
vpr_prebind(names(Ns), _, VNs) :- vpr_names(Ns, VNs).

vpr_names([], []).
vpr_names([Cs|Css], [(N = _)|Rest]) :- atom_codes(N, Cs), vpr_names(Css, Rest).

vpr_goal(chars, Codes, T, Opts, read_term_from_chars(Chars, T, Opts)) :-
    vp_codes_chars(Codes, Chars).
vpr_goal(file3(F), _, T, Opts, vpr_file3(F, T, Opts)).
vpr_goal(file2(F), _, T, Opts, vpr_file2(F, T, Opts)).

vpr_file3(F, T, Opts) :-
    open(F, read, S),
    catch(( read_term(S, T, Opts) -> Ok = true ; Ok = false ), E, ( close(S), throw(E) )),
    close(S),
    Ok == true.

vpr_file2(F, T, Opts) :-
    open(F, read, S),
    current_input(Old),
    set_input(S),
    catch(( read_term(T, Opts) -> Ok = true ; Ok = false ), E, ( set_input(Old), close(S), throw(E) )),
    set_input(Old),
    close(S),
    Ok == true.
