% helpers of C04 (consulted into module user after support.pl)

% the six comparison predicates, compiled with variable operands
c04_six(A, B, [R1,R2,R3,R4,R5,R6]) :-
    ( A =:= B -> R1 = t ; R1 = f ),
    ( A =\= B -> R2 = t ; R2 = f ),
    ( A < B -> R3 = t ; R3 = f ),
    ( A =< B -> R4 = t ; R4 = f ),
    ( A > B -> R5 = t ; R5 = f ),
    ( A >= B -> R6 = t ; R6 = f ).

% the same predicates reached through call/3 (as ordinary callable predicates)
c04_call(A, B, [R1,R2,R3,R4,R5,R6]) :-
    c04_c(=:=, A, B, R1),
    c04_c(=\=, A, B, R2),
    c04_c(<, A, B, R3),
    c04_c(=<, A, B, R4),
    c04_c(>, A, B, R5),
    c04_c(>=, A, B, R6).

c04_c(Op, A, B, R) :- ( call(Op, A, B) -> R = t ; R = f ).

c04_loaded.
