% Helpers of C40 (call_with_inference_limit/3): run a goal in one of several modes and record, per
% solution, the limit results and the template instance -- with a failure-driven loop and bb_put,
% not with findall/3 (an interrupted findall/3 inside the goal must not disturb the transport).
%
%   c40_go(+Goal, +Template, +Mode): result in the global variable c40_out as Items-End,
%       Items = [Item, ...] one per solution, End = done | ball(Ball)
%   Mode = plain              Item = p-Template
%        | lim(L)             Item = R-Template          call_with_inference_limit(Goal, L, R)
%        | nest(Li, Lo)       Item = n(Ro, Ri)-Template  the same inside an outer limit Lo
%        | seq(Li, Lo, N)     Item = n(Ro, Ri)-Template  outer limit over (inner limited Goal, c40_tail(N))
%        | enclosed(L)        Items = the list made by findall(R, call_with_inference_limit(Goal, L, R), Items)

c40_go(G, T, Mode) :-
    bb_put(c40_acc, []),
    bb_put(c40_end, done),
    (   Mode = enclosed(L) ->
        (   catch(findall(R, call_with_inference_limit(G, L, R), Rs), B, (bb_put(c40_end, ball(B)), Rs = [])) -> true
        ;   Rs = failed
        ),
        bb_get(c40_end, End),
        bb_put(c40_out, Rs-End)
    ;   (   catch(c40_mode(Mode, G, T, Item), B, (bb_put(c40_end, ball(B)), fail)),
            bb_get(c40_acc, A),
            bb_put(c40_acc, [Item|A]),
            fail
        ;   true
        ),
        bb_get(c40_acc, A1),
        c40_rev(A1, [], Items),
        bb_get(c40_end, End),
        bb_put(c40_out, Items-End)
    ).

c40_mode(plain, G, T, p-T) :- call(G).
c40_mode(lim(L), G, T, R-T) :- call_with_inference_limit(G, L, R).
c40_mode(nest(Li, Lo), G, T, n(Ro, Ri)-T) :-
    call_with_inference_limit(call_with_inference_limit(G, Li, Ri), Lo, Ro).
c40_mode(seq(Li, Lo, N), G, T, n(Ro, Ri)-T) :-
    call_with_inference_limit((call_with_inference_limit(G, Li, Ri), c40_tail(N)), Lo, Ro).

c40_tail(N) :- ( N =< 0 -> true ; N1 is N - 1, c40_tail(N1) ).

c40_rev([], A, A).
c40_rev([X|Xs], A, R) :- c40_rev(Xs, [X|A], R).
