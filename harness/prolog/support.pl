% Support predicates for the verification harness (consulted into module user).
% Only the most basic builtins are used on purpose.

:- use_module(library(lists)).
:- use_module(library(iso_ext)).
:- use_module(library(arithmetic)).

% ---------------------------------------------------------------------------
% vp_enc(+Term, -Enc): ground tagged encoding of Term.
%   v(N) | a(Codes) | i(Int) | r(Num,Den) | f(Float) | c(NameCodes,[Args]) | l([Items],Tail)

vp_enc(T, E) :- vp_enc_(T, E, [], _).

vp_enc_(T, E, Vs0, Vs) :-
    (   var(T) -> vp_var_idx(T, Vs0, Vs, N), E = v(N)
    ;   integer(T) -> E = i(T), Vs = Vs0
    ;   float(T) -> E = f(T), Vs = Vs0
    ;   number(T) -> once(rational_numerator_denominator(T, N, D)), E = r(N, D), Vs = Vs0
    ;   atom(T) -> atom_codes(T, Cs), E = a(Cs), Vs = Vs0
    ;   T = [_|_] -> vp_enc_list(T, Items, Tail, Vs0, Vs), E = l(Items, Tail)
    ;   functor(T, Name, Arity),
        atom_codes(Name, Cs),
        vp_enc_args(1, Arity, T, Args, Vs0, Vs),
        E = c(Cs, Args)
    ).

vp_enc_list(T, Items, Tail, Vs0, Vs) :-
    (   nonvar(T), T = [H|Rest] ->
        vp_enc_(H, EH, Vs0, Vs1),
        Items = [EH|Items1],
        vp_enc_list(Rest, Items1, Tail, Vs1, Vs)
    ;   Items = [],
        vp_enc_(T, Tail, Vs0, Vs)
    ).

vp_enc_args(I, Arity, T, Args, Vs0, Vs) :-
    (   I > Arity -> Args = [], Vs = Vs0
    ;   arg(I, T, A),
        vp_enc_(A, EA, Vs0, Vs1),
        Args = [EA|Args1],
        I1 is I + 1,
        vp_enc_args(I1, Arity, T, Args1, Vs1, Vs)
    ).

% variables are numbered in order of first occurrence; Vs is a list in reverse order
vp_var_idx(V, Vs0, Vs, N) :-
    (   vp_var_find(Vs0, V, N0) -> N = N0, Vs = Vs0
    ;   length(Vs0, N), Vs = [V-N|Vs0]
    ).

vp_var_find([W-M|Rest], V, N) :-
    (   W == V -> N = M
    ;   vp_var_find(Rest, V, N)
    ).

% ---------------------------------------------------------------------------
% vp_dec(+Enc, -Term): inverse of vp_enc; s(Codes) builds a list of chars;
% equal v(N) give the same variable.

vp_dec(E, T) :- vp_dec_(E, T, [], _).

% vp_decs(+Encs, -Terms): decode several encodings sharing variables
vp_decs(Es, Ts) :- vp_dec_all(Es, Ts, [], _).

vp_dec_(E, T, B0, B) :-
    (   E = v(N) -> vp_binding(N, B0, B, T)
    ;   E = i(I) -> T = I, B = B0
    ;   E = f(F) -> T = F, B = B0
    ;   E = r(N, D) -> T is N rdiv D, B = B0
    ;   E = a(Cs) -> atom_codes(T, Cs), B = B0
    ;   E = s(Cs) -> vp_codes_chars(Cs, T), B = B0
    ;   E = l(Items, Tail) ->
        vp_dec_(Tail, TT, B0, B1),
        vp_dec_items(Items, TT, T, B1, B)
    ;   E = c(Cs, Args) ->
        atom_codes(Name, Cs),
        vp_dec_all(Args, TArgs, B0, B),
        T =.. [Name|TArgs]
    ).

vp_dec_items([], TT, TT, B, B).
vp_dec_items([E|Es], TT, [T|Ts], B0, B) :-
    vp_dec_(E, T, B0, B1),
    vp_dec_items(Es, TT, Ts, B1, B).

vp_dec_all([], [], B, B).
vp_dec_all([E|Es], [T|Ts], B0, B) :-
    vp_dec_(E, T, B0, B1),
    vp_dec_all(Es, Ts, B1, B).

vp_binding(N, B0, B, V) :-
    (   vp_bfind(B0, N, V0) -> V = V0, B = B0
    ;   B = [N-V|B0]
    ).

vp_bfind([M-W|Rest], N, V) :-
    (   M =:= N -> V = W
    ;   vp_bfind(Rest, N, V)
    ).

vp_codes_chars([], []).
vp_codes_chars([C|Cs], [Ch|Chs]) :- char_code(Ch, C), vp_codes_chars(Cs, Chs).

% ---------------------------------------------------------------------------
% vp_run(:Goal, +Template, -Result)
%   Result = ok([Enc...])  all solutions (copies of Template, each encoded separately)
%          | ex(EncBall)

vp_run(G, Tmpl, R) :-
    catch(( findall(E, (call(G), vp_enc(Tmpl, E)), L), R = ok(L) ),
          Ball,
          ( vp_enc(Ball, EB), R = ex(EB) )).

% first solution only: Result = ok([Enc]) | ok([]) | ex(EncBall)
vp_once(G, Tmpl, R) :-
    catch(( call(G) -> vp_enc(Tmpl, E), R = ok([E]) ; R = ok([]) ),
          Ball,
          ( vp_enc(Ball, EB), R = ex(EB) )).

% solutions up to a maximum count N
vp_run_n(G, Tmpl, N, R) :-
    catch(( findall(E, (call_nth(G, K), vp_enc(Tmpl, E), (K >= N -> ! ; true)), L), R = ok(L) ),
          Ball,
          ( vp_enc(Ball, EB), R = ex(EB) )).

% vp_run with an inference limit: Result additionally may be limit
vp_run_lim(G, Tmpl, Lim, R) :-
    catch(( call_with_inference_limit(findall(E, (call(G), vp_enc(Tmpl, E)), L), Lim, LR),
            ( LR == inference_limit_exceeded -> R = limit ; R = ok(L) ) ),
          Ball,
          ( vp_enc(Ball, EB), R = ex(EB) )).

vp_loaded(support).
