% C10 helpers: unify through different entry points under a given occurs_check flag and reify.

c10_eq(X, X).

c10_go(0, A, B) :- A = B.
c10_go(1, A, B) :- c10_eq(A, B).
c10_go(2, A, B) :- unify_with_occurs_check(A, B).
c10_go(3, A, B) :- c10_pred(G), call(G, A, B).

c10_pred(=).

c10_unify(Entry, Flag, A, B, R) :-
    set_prolog_flag(occurs_check, Flag),
    catch(( c10_go(Entry, A, B) -> R0 = yes ; R0 = no ), E, R0 = ex(E)),
    set_prolog_flag(occurs_check, false),
    R = R0.

% Res = r(R, Eq, Unf): R = yes | no | ex(Ball); Eq = true iff A == B afterwards; Unf = budgeted
% pre-order unfolding (rt_unfold) of t(A,B,Outs) -- complete when the terms are finite and small.
c10_run(Entry, Flag, K, A, B, Outs, Res) :-
    c10_unify(Entry, Flag, A, B, R),
    ( A == B -> Eq = true ; Eq = false ),
    rt_unfold(t(A,B,Outs), K, Unf),
    Res = r(R, Eq, Unf).

% entry points used by the harness: no term-valued query variables (the public answer
% conversion of run_query must only ever see the ground encoding in Res)
c10_spec(Specs, Swap, Entry, Flag, K, Res) :-
    tb_builds(Specs, Ts),
    (   Swap =:= 1 -> Ts = [B,A|Outs] ; Ts = [A,B|Outs] ),
    c10_run(Entry, Flag, K, A, B, Outs, Res).

c10_text(Codes, Swap, Entry, Flag, K, Res) :-
    vp_codes_chars(Codes, Chars),
    read_from_chars(Chars, t(X,Y,Outs)),
    (   Swap =:= 1 -> B = X, A = Y ; A = X, B = Y ),
    c10_run(Entry, Flag, K, A, B, Outs, Res).
