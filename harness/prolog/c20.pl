% Helpers for C20 (consulted into module user by props/c20.rs).

:- use_module(library(charsio)).
:- use_module(library(format)).
:- use_module(library(dcgs)).

:- dynamic(c20f/1).
:- dynamic(c20i/2).
:- dynamic(c20lit/2).

c20_tf(G, R) :- ( call(G) -> R = true ; R = false ).

% explicit list built cell by cell through =../2
c20_mk([], T, T).
c20_mk([C|Cs], T, L) :- c20_mk(Cs, T, L0), L =.. ['.', C, L0].

% walk a list by head unification only
c20_walk(S, R) :-
    (   var(S) -> R = tail_var
    ;   S == [] -> R = []
    ;   S = [C|T] -> R = [C|R1], c20_walk(T, R1)
    ;   R = other(S)
    ).

% c20_op(+Op, ?S, ?Q, +K, -R)
c20_op(unify, S, Q, _, R) :- ( S = Q -> R = yes(S, Q) ; R = no ).
c20_op(unify_rev, S, Q, _, R) :- ( Q = S -> R = yes(S, Q) ; R = no ).
c20_op(unify_oc, S, Q, _, R) :- ( unify_with_occurs_check(S, Q) -> R = yes(S, Q) ; R = no ).
c20_op(unify_struct, S, Q, _, R) :- ( f(S, Q, x) = f(Q, S, x) -> R = yes(S, Q) ; R = no ).
c20_op(not_unify, S, Q, _, R) :- c20_tf(S \= Q, R).
c20_op(eq, S, Q, _, R) :- c20_tf(S == Q, A), c20_tf(Q == S, B), c20_tf(S \== Q, C), R = [A,B,C].
c20_op(compare, S, Q, _, R) :- compare(O1, S, Q), compare(O2, Q, S), R = O1/O2.
c20_op(ordops, S, Q, _, R) :-
    c20_tf(S @< Q, A), c20_tf(S @=< Q, B), c20_tf(S @> Q, C), c20_tf(S @>= Q, D), R = [A,B,C,D].
c20_op(length, S, _, _, R) :- length(S, R).
c20_op(length_chk, S, _, K, R) :- c20_tf(length(S, K), R).
c20_op(append_split, S, _, _, R) :- findall(A-B, append(A, B, S), R).
c20_op(append_sq, S, Q, _, R) :- append(S, Q, R).
c20_op(append_qs, S, Q, _, R) :- append(Q, S, R).
c20_op(append_prefix, S, Q, _, R) :- ( append(Q, Rest, S) -> R = yes(Rest) ; R = no ).
c20_op(nth0, S, _, K, R) :- ( nth0(K, S, C) -> R = yes(C) ; R = no ).
c20_op(nth1, S, _, K, R) :- ( nth1(K, S, C) -> R = yes(C) ; R = no ).
c20_op(nth0_enum, S, _, _, R) :- findall(I-C, nth0(I, S, C), R).
c20_op(arg, S, _, _, R) :- arg(1, S, H), arg(2, S, T), R = H-T.
c20_op(arg_enum, S, _, _, R) :- findall(I-A, arg(I, S, A), R).
c20_op(functor, S, _, _, R) :- functor(S, N, A), R = N/A.
c20_op(univ, S, _, _, R) :- S =.. R.
c20_op(copy, S, _, _, R) :- copy_term(S, C), c20_tf(C == S, E), R = C-E.
c20_op(findall, S, _, _, R) :- findall(S, true, R).
c20_op(findall_nested, S, Q, _, R) :- findall(g(S, Q, S), true, R).
c20_op(members, S, _, _, R) :- findall(X, member(X, S), R).
c20_op(memberchk, S, Q, _, R) :- ( Q = [C|_] -> c20_tf(memberchk(C, S), R) ; R = none ).
c20_op(reverse, S, _, _, R) :- reverse(S, R).
c20_op(assert, S, Q, _, R) :-
    retractall(c20f(_)),
    assertz(c20f(S)),
    findall(X, c20f(X), Xs),
    c20_tf(\+ \+ c20f(Q), M),
    c20_tf(\+ \+ retract(c20f(Q)), D),
    findall(X, c20f(X), Ys),
    retractall(c20f(_)),
    R = r(Xs, M, D, Ys).
c20_op(index, S, Q, _, R) :-
    retractall(c20i(_, _)),
    assertz(c20i(foo, 0)),
    assertz(c20i(S, 1)),
    assertz(c20i(Q, 2)),
    assertz(c20i([], 3)),
    assertz(c20i([x|S], 4)),
    findall(X, c20i(S, X), R1),
    findall(X, c20i(Q, X), R2),
    retractall(c20i(_, _)),
    R = R1-R2.
c20_op(sort, S, _, _, R) :- sort(S, R).
c20_op(sort_terms, S, Q, _, R) :- sort([S, Q, f(S), "m", [m], S, g(Q)], R).
c20_op(keysort, S, Q, _, R) :- keysort([S-1, Q-2, S-3, Q-4], R).
c20_op(term_vars, S, Q, _, R) :- term_variables(f(S, Q), Vs), R = t(S, Q, Vs).
c20_op(ground, S, _, _, R) :- c20_tf(ground(S), R).
c20_op(atom_back, S, _, _, R) :- atom_chars(A, S), atom_length(A, N), atom_codes(A, Cs), R = a(N, Cs).
c20_op(number_back, S, _, _, R) :- number_chars(N, S), R = N.
c20_op(walk, S, _, _, R) :- c20_walk(S, R).
c20_op(head_tail, S, Q, _, R) :- ( S = [H|T], Q = [H2|T2] -> c20_tf(H == H2, A), c20_tf(T == T2, B), R = [A,B] ; R = none ).
c20_op(writeq, S, _, _, R) :- write_term_to_chars(S, [quoted(true)], R).
c20_op(print_list, S, Q, _, R) :- write_term_to_chars(f(S, [S|Q]), [quoted(true)], R).
c20_op(is_list, S, _, _, R) :- c20_tf(catch(must_be(list, S), _, false), R).
