% C47 helpers: grammars run once over a file (phrase_from_file/2,3) and once over the same
% characters as a list (phrase/2); only a small verdict leaves Prolog.

% ---- grammars --------------------------------------------------------------------------------
c47_len(N0, N) --> [_], !, { N1 is N0 + 1 }, c47_len(N1, N).
c47_len(N, N) --> [].

c47_lines([L|Ls]) --> c47_line(L), "\n", !, c47_lines(Ls).
c47_lines([L]) --> seq(L).

c47_line([]) --> [].
c47_line([C|Cs]) --> [C], { C \== '\n' }, c47_line(Cs).

% exactly N characters
c47_take(0, []) --> !.
c47_take(N, [C|Cs]) --> [C], { N1 is N - 1 }, c47_take(N1, Cs).

% leave the rest of the input alone (a lazy list is never forced behind this point)
c47_drop(_, []).

% zero or more C (greedy, with backtracking)
c47_star(C) --> [C], c47_star(C).
c47_star(_) --> [].

c47_eos([], []).

% count the characters that satisfy a code range, without choice points
c47_count_above(Lim, N0, N) --> [C], !, { char_code(C, X), ( X > Lim -> N1 is N0 + 1 ; N1 = N0 ) }, c47_count_above(Lim, N1, N).
c47_count_above(_, N, N) --> [].

% ---- running -----------------------------------------------------------------------------------
% c47_sols(+Goal, +Out, +Max, +Lim, -R): R = ok(Sols) | ex(E) | limit
c47_sols(Goal, Out, Max, Lim, R) :-
    catch(( call_with_inference_limit(findall(Out, c47_upto(Max, Goal), Sols), Lim, LR),
            ( LR == inference_limit_exceeded -> R = limit ; R = ok(Sols) ) ),
          E, R = ex(E)).

c47_upto(Max, Goal) :-
    call_nth(Goal, K),
    ( K >= Max -> ! ; true ).

c47_open_count(File, N) :-
    atom_chars(FA, File),
    findall(S, stream_property(S, file_name(FA)), Ss),
    length(Ss, N).

% c47_run(+FileChars, +File, +Opts, +Chars, +Body, +Out, +Max, -V)   (File: chars or atom)
% V = same(NSols, Kind, Open) | differ(Kind1, Kind2, Summary) | skip(What)
c47_run(FileChars, File, Opts, Chars, Body, Out, Max, V) :-
    copy_term(Body-Out, Body1-Out1),
    copy_term(Body-Out, Body2-Out2),
    c47_sols(phrase(Body2, Chars), Out2, Max, 20000000, R2),
    (   Opts == none ->
        c47_sols(phrase_from_file(Body1, File), Out1, Max, 400000000, R1)
    ;   c47_sols(phrase_from_file(Body1, File, Opts), Out1, Max, 400000000, R1)
    ),
    c47_open_count(FileChars, Open),
    (   ( R1 == limit ; R2 == limit ) -> V = skip(limit(R1, R2))
    ;   R1 = ok(S1), R2 = ok(S2) ->
        length(S1, N1), length(S2, N2),
        (   S1 == S2 -> V = same(N1, ok, Open)
        ;   c47_first_diff(S1, S2, 0, D),
            V = differ(N1, N2, D)
        )
    ;   R1 = ex(error(F1, _)), R2 = ex(error(F2, _)), F1 == F2 -> V = same(0, error(F1), Open)
    ;   c47_kind(R1, K1), c47_kind(R2, K2),
        V = differ(K1, K2, none)
    ).

c47_kind(ok(S), ok(N)) :- length(S, N).
c47_kind(ex(E), ex(E)).
c47_kind(limit, limit).

% index of the first differing solution and a short description of the two terms
c47_first_diff([A|As], [B|Bs], I, D) :-
    (   A == B -> I1 is I + 1, c47_first_diff(As, Bs, I1, D)
    ;   c47_is_chars(A), c47_is_chars(B) -> c47_mismatch(A, B, 0, M), D = at(I, M, chars)
    ;   A = A1-A2, B = B1-B2, c47_is_chars(A1), c47_is_chars(B1), A1 \== B1 -> c47_mismatch(A1, B1, 0, M), D = at(I, M, left)
    ;   A = A1-A2, B = B1-B2, c47_is_chars(A2), c47_is_chars(B2) -> c47_mismatch(A2, B2, 0, M), D = at(I, M, right)
    ;   c47_brief(A, SA), c47_brief(B, SB), D = at(I, SA, SB)
    ).
c47_first_diff([], [_|_], I, more_in_list(I)).
c47_first_diff([_|_], [], I, more_in_file(I)).
c47_first_diff([], [], I, none(I)).

% a bounded description: size and the first mismatching characters for char lists
c47_brief(T, B) :-
    (   T = A-Bt, c47_is_chars(A), c47_is_chars(Bt) -> length(A, LA), length(Bt, LB), B = pair(LA, LB)
    ;   c47_is_chars(T) -> length(T, L), c47_prefix(T, 12, P), B = chars(L, P)
    ;   integer(T) -> B = T
    ;   atom(T) -> B = T
    ;   c47_proper(T) -> length(T, L), B = list(L)
    ;   B = other
    ).

c47_is_chars(T) :- '$skip_max_list'(_, _, T, Tail), Tail == [], ( T == [] -> true ; T = [C|_], atom(C) ).

c47_prefix([], _, []) :- !.
c47_prefix(_, 0, []) :- !.
c47_prefix([C|Cs], N, [C|Ps]) :- N1 is N - 1, c47_prefix(Cs, N1, Ps).

% where do two char lists first differ (for the report)
c47_mismatch([A|As], [B|Bs], I, D) :-
    (   A == B -> I1 is I + 1, c47_mismatch(As, Bs, I1, D)
    ;   D = at(I, A, B)
    ).
c47_mismatch([], [_|_], I, shorter_file(I)).
c47_mismatch([_|_], [], I, longer_file(I)).
c47_mismatch([], [], I, equal(I)).

c47_proper(T) :- '$skip_max_list'(_, _, T, Tail), Tail == [].
