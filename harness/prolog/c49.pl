% C49 helper: first N solutions of Goal under an inference limit, as raw template copies.
%   Res = ok(Instances) | limit | ex(Ball)

:- use_module(library(between)).
:- use_module(library(lists)).
:- use_module(library(iso_ext)).

c49_run(G, Tmpl, N, Lim, Res) :-
    catch(( call_with_inference_limit(
                findall(Tmpl, ( call_nth(G, K), ( K >= N -> ! ; true ) ), L),
                Lim, LR),
            (   LR == inference_limit_exceeded -> Res = limit ; Res = ok(L) ) ),
          Ball,
          % the ball may share variables with Res (a garbage ball can be the query term itself):
          % copy it first so that binding Res cannot create a cyclic term
          ( copy_term(Ball, Ball1), Res = ex(Ball1) )).
