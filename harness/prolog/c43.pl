% C43 driver: runs a whole history of op/3 calls, current_op/3 queries and parse probes inside
% ONE query, so that the text of the harness's own queries is always parsed under the pristine
% operator table. All arguments arrive in the transport encoding (vp_decs/2).

:- use_module(library(charsio)).
:- use_module(library(lists)).

c43_run(Encs, [t(Tab0)|Out]) :-
    c43_table(Tab0),
    vp_decs(Encs, Items),
    c43_items(Items, Out).

c43_items([], []).
c43_items([I|Is], [R|Rs]) :- c43_item(I, R), c43_items(Is, Rs).

c43_table(Tab) :- findall(op(P,T,N), current_op(P,T,N), Tab).

c43_item(op(P,T,N), r(O, Tab)) :-
    catch(( op(P,T,N) -> O = yes ; O = no ), B, ( c43_norm(B, B2), O = ex(B2) )),
    c43_table(Tab).
c43_item(q(P,T,N), r(O)) :-
    catch(( findall(op(P,T,N), current_op(P,T,N), L), O = ok(L) ), B, ( c43_norm(B, B2), O = ex(B2) )).
c43_item(parse(Codes), r(O)) :-
    c43_chars(Codes, Chars),
    catch(( read_from_chars(Chars, T) -> O = ok(T) ; O = no ), B, ( c43_norm(B, B2), O = ex(B2) )).

c43_chars([], []).
c43_chars([C|Cs], [Ch|Chs]) :- char_code(Ch, C), c43_chars(Cs, Chs).

% Error balls built by the machine can hold an atom as a structure cell of arity 0, on which
% atom_codes/2 (used by vp_enc) panics; functor/3 gives back the plain atom.
c43_norm(X, Y) :-
    (   var(X) -> Y = X
    ;   atom(X) -> functor(X, Y, _)
    ;   compound(X) ->
        X =.. [F|As],
        c43_norm_list(As, Bs),
        Y =.. [F|Bs]
    ;   Y = X
    ).

c43_norm_list([], []).
c43_norm_list([A|As], [B|Bs]) :- c43_norm(A, B), c43_norm_list(As, Bs).
