% C29 helpers (consulted into module user after support.pl).
% The query always arrives as a list of character codes and is read with
% read_term_from_chars/3 + variable_names/1, which is what the REPL does with the
% text typed by the user ('$read_query_term').  Everything the toplevel prints goes to
% user_output, which the harness has bound to a callback stream.

:- use_module(library(charsio)).
:- use_module(library(lists)).
:- use_module(library(iso_ext)).

:- dynamic(c29_ball/1).

c29_chars(Codes, Chars) :- atom_codes(A, Codes), atom_chars(A, Chars).

c29_read(Codes, Goal, VNs) :-
    c29_chars(Codes, Chars0),
    append(Chars0, " .", Chars),
    read_term_from_chars(Chars, Goal, [variable_names(VNs)]).

% ---------------------------------------------------------------------------
% path A: '$toplevel':run_query_goal/4 with our own callback.  Each leaf answer is printed by
% '$toplevel':write_leaf_answer/2 on a line of its own after a marker line
% "\x1\pending" / "\x1\final" / "\x1\exception".  The callback always answers `continue`
% (the toplevel minus the keyboard); the failure-driven loop is the one of repl/0.

c29_a(Codes) :-
    retractall(c29_ball(_)),
    c29_read(Codes, Goal, VNs),
    (   '$toplevel':run_query_goal(Goal, VNs, user:c29_cb, []),
        false
    ;   true
    ),
    flush_output(user_output).

c29_cb(pending(LA), _, continue) :- c29_emit(pending, LA).
c29_cb(final(LA), _, continue) :- c29_emit(final, LA).

c29_emit(Kind, LA) :-
    (   nonvar(LA), LA = exception(E) ->
        assertz(c29_ball(E)),
        put_char('\x1\'), write(exception), nl,
        % the text print_exception/1 gives after at least one answer (no indentation)
        bb_put('$answer_count', 1),
        '$toplevel':print_exception(E)
    ;   put_char('\x1\'), write(Kind), nl,
        '$toplevel':write_leaf_answer(LA, []), nl
    ).

% ---------------------------------------------------------------------------
% path B: the toplevel's own callback (toplevel_query_callback/3 -> read_input/2) in the state
% the REPL is in after the user pressed `a` ("enumerate all solutions"): the global variables
% are those set by submit_query_and_print_results/2 except '$report_all' = true, so that
% read_input/2 never reaches get_single_char/1.  The loop is repl/0's:
%     catch(read_and_match, E, print_exception(E)), false.

c29_b(Codes) :-
    c29_read(Codes, Goal, VNs),
    (   catch(c29_submit(Goal, VNs), E, '$toplevel':print_exception(E)),
        false
    ;   true
    ),
    flush_output(user_output).

c29_submit(Goal, VNs) :-
    bb_put('$answer_count', 0),
    bb_put('$report_all', true),
    bb_put('$report_n_more', 0),
    '$toplevel':run_query_goal(Goal, VNs, '$toplevel':toplevel_query_callback, []).

% ---------------------------------------------------------------------------
% reference runs of the same query text on the same machine

c29_lookup(VNs, Name, V) :-
    (   VNs = [N=V0|VNs1] ->
        (   N == Name -> V = V0
        ;   c29_lookup(VNs1, Name, V)
        )
    ;   true
    ).

c29_template([], _, []).
c29_template([Name|Names], VNs, [V|Vs]) :-
    c29_lookup(VNs, Name, V),
    c29_template(Names, VNs, Vs).

% c29_sols(+QueryCodes, +Names, -R): R = list of s(EncTemplate) with a final x(EncBall) when the
% query raised; Template = the variables named Names (in that order)
c29_sols(Codes, Names, L) :-
    c29_read(Codes, Goal, VNs),
    c29_template(Names, VNs, Tmpl),
    findall(X, c29_each(Goal, Tmpl, X), L).

c29_each(G, T, X) :-
    catch(G, B, Ex = true),
    (   Ex == true ->
        (   acyclic_term(B) -> vp_enc(B, EB), X = x(EB) ; X = cyc )
    ;   acyclic_term(T) -> vp_enc(T, ET), X = s(ET)
    ;   X = cyc
    ).

% c29_dets(+QueryCodes, -L): per solution det / nondet (did the solution leave a choice point),
% decided by setup_call_cleanup/3; a final x when the query raised
c29_dets(Codes, L) :-
    c29_read(Codes, Goal, _),
    findall(X, c29_det_each(Goal, X), L).

c29_det_each(G, X) :-
    catch(setup_call_cleanup(true, G, Det = true), _, Ex = true),
    (   Ex == true -> X = x
    ;   Det == true -> X = det
    ;   X = nondet
    ).

% ---------------------------------------------------------------------------
% re-execution of a printed answer

% c29_alone(+AnswerCodes, +Names, -R): the answer text alone, read with variable_names;
%   R = ok(Sols, Lhs, Others)
%         Sols   = [Enc(Template-NumberOfResidualGoals)...] one per solution of the answer run
%                  as a goal (the residual goals themselves are not handed out: goals that went
%                  through meta-argument expansion contain atoms atom_codes/2 panics on)
%         Lhs    = per equation of the answer the name of the variable on its left ('' if none)
%         Others = number of goals other than equations and `true`
%     | unreadable(EncBall) | ex(EncBall)
c29_alone(ACodes, Names, R) :- c29_alone(ACodes, " .", Names, R).

% with End = "." the text is read exactly as the toplevel prints its last answer (answer, then
% the final dot)
c29_alone(ACodes, End, Names, R) :-
    c29_chars(ACodes, Chars0),
    append(Chars0, End, Chars),
    catch(read_term_from_chars(Chars, Goal, [variable_names(VNs)]), B, true),
    (   nonvar(B) ->
        vp_enc(B, EB), R = unreadable(EB)
    ;   c29_template(Names, VNs, Tmpl),
        c29_shape(Goal, VNs, Lhs, [], 0, Others),
        catch(( findall(E, (call(Goal), copy_term(Tmpl, T1, Gs), length(Gs, NGs), c29_enc_acyclic(T1-NGs, E)), L), R = ok(L, Lhs, Others) ),
              B2,
              ( c29_ball_enc(B2, EB2), R = ex(EB2) ))
    ).

c29_shape(G, VNs, Lhs0, Lhs, O0, O) :-
    (   var(G) -> Lhs0 = Lhs, O is O0 + 1
    ;   G = (A, B) ->
        c29_shape(A, VNs, Lhs0, Lhs1, O0, O1),
        c29_shape(B, VNs, Lhs1, Lhs, O1, O)
    ;   G = (L = _) ->
        (   var(L), c29_name_of(VNs, L, N) -> true ; N = '' ),
        Lhs0 = [N|Lhs], O = O0
    ;   G == true -> Lhs0 = Lhs, O = O0
    ;   Lhs0 = Lhs, O is O0 + 1
    ).

c29_name_of([N=V|VNs], L, Name) :-
    (   V == L -> Name = N
    ;   c29_name_of(VNs, L, Name)
    ).

% c29_with_query(+QueryCodes, +AnswerCodes, -R): "(Query), (Answer)" read as ONE term so that
% the variable names are shared; R = ok | failed | unreadable(_) | ex(_)
c29_with_query(QCodes, ACodes, R) :-
    c29_chars(QCodes, QChars),
    c29_chars(ACodes, AChars),
    append(["c29q((", QChars, "), (", AChars, ")) ."], Chars),
    catch(read_term_from_chars(Chars, T, [variable_names(_)]), B, true),
    (   nonvar(B) ->
        vp_enc(B, EB), R = unreadable(EB)
    ;   T = c29q(Q, A),
        % an error raised by the answer when it meets a *different* solution of the query (a goal
        % frozen by an earlier disjunct) only rules that solution out
        (   catch(call(Q), B2, Ex = true),
            (   Ex == true -> true ; catch(call(A), _, fail) ) ->
            (   Ex == true -> c29_ball_enc(B2, EB2), R = ex(EB2) ; R = ok )
        ;   R = failed
        )
    ).

% only the functor of the Formal of an error ball leaves Prolog (culprits may be cyclic or hold
% atoms that cannot be encoded)
c29_ball_enc(B, E) :-
    (   nonvar(B), B = error(F, _), nonvar(F) -> functor(F, N, A), vp_enc(error(N/A), E)
    ;   nonvar(B) -> functor(B, N, A), vp_enc(ball(N/A), E)
    ;   vp_enc(var, E)
    ).

% c29_last_kind(+AnswerCodes, -K): what the last goal of the answer is:
%   atom (Var = an atom) | compound (Var = any other term) | goal
c29_last_kind(ACodes, K) :-
    c29_chars(ACodes, Chars0),
    append(Chars0, " .", Chars),
    read_term_from_chars(Chars, Goal, []),
    c29_last_goal(Goal, G),
    (   nonvar(G), G = (_ = V) ->
        (   atom(V) -> K = atom ; K = compound )
    ;   K = goal
    ).

c29_last_goal(G, L) :-
    (   nonvar(G), G = (_, B) -> c29_last_goal(B, L)
    ;   L = G
    ).

% a(cyclic) where the term cannot be encoded
c29_enc_acyclic(T, E) :-
    (   acyclic_term(T) -> vp_enc(T, E)
    ;   vp_enc(cyclic, E)
    ).

c29_loaded(yes).
