% C41 helpers: json_chars//1 in both directions, reified.
c41_p(Cs, R) :-
    G = json_chars(T),
    catch(( phrase(G, Cs) -> R = ok(T) ; R = failed ), E, R = ex(E)).

c41_g(T, R) :-
    G = json_chars(T),
    catch(( phrase(G, Cs) -> R = ok(Cs) ; R = failed ), E, R = ex(E)).

c41_run(Text, T, r(P, Gn, B)) :-
    c41_p(Text, P),
    c41_g(T, Gn),
    (   Gn = ok(Cs2) -> c41_p(Cs2, B)
    ;   B = none
    ).

% all parses of a text under an inference limit
c41_all(Cs, Lim, R) :-
    G = json_chars(T),
    catch(( call_with_inference_limit(findall(T, phrase(G, Cs), L), Lim, LR),
            (   LR == inference_limit_exceeded -> R = limit
            ;   R = ok(L)
            ) ),
          E, R = ex(E)).
