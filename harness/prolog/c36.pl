% C36 helpers: run format_//2 under catch and reify.
c36_one(F, A, R) :-
    G = format_(F, A),
    catch(( phrase(G, Cs) -> R = ok(Cs) ; R = failed ), E, R = ex(E)).

c36_each([], []).
c36_each([F-A|Ps], [R|Rs]) :- c36_one(F, A, R), c36_each(Ps, Rs).

c36_run(Fs, Args, Pairs, r(W, Rs)) :-
    c36_one(Fs, Args, W),
    c36_each(Pairs, Rs).

% format/2 onto the current output (goal-expanded at call time)
c36_stream(Fs, Args, R) :-
    G = format(Fs, Args),
    catch(( call(G) -> R = ok ; R = failed ), E, R = ex(E)),
    flush_output.
