% C34 helpers: build large terms of a given shape and run one operation on them, answering a
% small verdict. The large term never leaves this file's clause bodies.

:- use_module(library(charsio)).
:- use_module(library(lists)).
:- use_module(library(iso_ext)).

:- dynamic(c34_fact/1).

% c34_build(+Shape, +N, +Leaf, -T)
c34_build(list, N, Leaf, T) :- c34_list(N, Leaf, [], T).
c34_build(nest_r, N, Leaf, T) :- c34_nest_r(N, Leaf, T).
c34_build(nest_l, N, Leaf, T) :- c34_nest_l(N, Leaf, T).
c34_build(nest_last, N, Leaf, T) :- c34_nest_last(N, Leaf, T).
c34_build(conj, N, Leaf, T) :- N1 is N - 1, c34_conj(N1, Leaf, Leaf, T).
c34_build(string, N, _Leaf, T) :- c34_list(N, a, [], Cs), atom_chars(A, Cs), atom_chars(A, T).
c34_build(wide_chain, N, Leaf, T) :- K is max(1, N // 256), c34_wide(K, Leaf, T).
c34_build(opchain, N, Leaf, T) :- N1 is N - 1, c34_opchain(N1, Leaf, T).

c34_list(N, E, Acc, L) :- ( N =< 0 -> L = Acc ; N1 is N - 1, c34_list(N1, E, [E|Acc], L) ).
c34_nest_r(N, Acc, T) :- ( N =< 0 -> T = Acc ; N1 is N - 1, c34_nest_r(N1, f(Acc), T) ).
c34_nest_l(N, Acc, T) :- ( N =< 0 -> T = Acc ; N1 is N - 1, c34_nest_l(N1, g(Acc, x), T) ).
c34_nest_last(N, Acc, T) :- ( N =< 0 -> T = Acc ; N1 is N - 1, c34_nest_last(N1, h(x, Acc), T) ).
c34_conj(N, E, Acc, T) :- ( N =< 0 -> T = Acc ; N1 is N - 1, c34_conj(N1, E, (E, Acc), T) ).
c34_opchain(N, Acc, T) :- ( N =< 0 -> T = Acc ; N1 is N - 1, c34_opchain(N1, Acc + 1, T) ).

% K nodes of arity 255: w(1,2,...,254,Next)
c34_wide(K, Acc, T) :-
    (   K =< 0 -> T = Acc
    ;   functor(W, w, 255),
        c34_fill(1, 254, W),
        arg(255, W, Acc),
        K1 is K - 1,
        c34_wide(K1, W, T)
    ).
c34_fill(I, Max, W) :- ( I > Max -> true ; arg(I, W, I), I1 is I + 1, c34_fill(I1, Max, W) ).

c34_leaf(opchain, 1) :- !.
c34_leaf(list, a) :- !.
c34_leaf(conj, a) :- !.
c34_leaf(_, x).

% c34_run(+Op, +Shape, +N, +File, -Verdict)
%   Verdict = ok | failed | resource(What) | err(Name/Arity)
c34_run(Op, Shape, N, File, V) :-
    catch(( c34_op(Op, Shape, N, File) -> V = ok ; V = failed ), E, c34_err(E, V)).

c34_err(E, V) :-
    (   nonvar(E), E = error(F, _), nonvar(F) ->
        (   F = resource_error(R), atomic(R) -> V = resource(R)
        ;   functor(F, Name, A), V = err(Name/A)
        )
    ;   V = err(non_error_ball/0)
    ).

c34_term(Shape, N, T) :- c34_leaf(Shape, Leaf), c34_build(Shape, N, Leaf, T).

c34_op(build, Shape, N, _) :- c34_term(Shape, N, T), nonvar(T).
c34_op(copy_term, Shape, N, _) :- c34_term(Shape, N, T), copy_term(T, C), C == T.
c34_op(compare, Shape, N, _) :-
    c34_term(Shape, N, T), c34_term(Shape, N, T2),
    T == T2, compare(O, T, T2), O == (=), \+ T \== T2, \+ T @< T2, T @>= T2.
c34_op(unify, Shape, N, _) :-
    c34_term(Shape, N, T), c34_build(Shape, N, Leaf, T2),
    T = T2, T2 == T, ( Shape == string -> true ; nonvar(Leaf) ),
    c34_build(Shape, N, _, T3), \+ T3 \= T.
c34_op(writeq, Shape, N, _) :-
    c34_term(Shape, N, T),
    write_term_to_chars(T, [quoted(true)], Cs), length(Cs, L), L >= N,
    writeq(T), nl.
c34_op(write_canonical, Shape, N, _) :-
    c34_term(Shape, N, T), write_canonical(T), nl.
c34_op(read_term, Shape, N, File) :-
    open(File, read, S), read_term(S, T, []), close(S),
    c34_term(Shape, N, T2), T == T2.
c34_op(read_from_chars, Shape, N, File) :-
    open(File, read, S), get_n_chars(S, 100000000, Cs), close(S),
    read_term_from_chars(Cs, T, []),
    c34_term(Shape, N, T2), T == T2.
c34_op(assert, Shape, N, _) :-
    c34_term(Shape, N, T),
    assertz(c34_fact(T)), c34_fact(X), X == T, retract(c34_fact(_)),
    asserta(c34_fact(T)), retract(c34_fact(Y)), Y == T.
c34_op(consult, Shape, N, File) :-
    consult(File),
    c34_term(Shape, N, T2), G = c34_loaded(X), call(G), X == T2.
c34_op(findall, Shape, N, _) :-
    c34_term(Shape, N, T), findall(T, true, [C]), C == T,
    bagof(T, true, [C2]), C2 == T.
c34_op(sort, Shape, N, _) :-
    c34_term(Shape, N, T), c34_term(Shape, N, T2),
    sort([T, T2, T], S), length(S, 1),
    keysort([T-1, T2-2, T-0], S2), S2 = [_-1, _-2, _-0],
    ( Shape == list -> sort(T, S3), length(S3, 1) ; true ).
c34_op(length, Shape, N, _) :-
    c34_term(Shape, N, T), length(T, L), L == N.
c34_op(ground_vars, Shape, N, _) :-
    c34_term(Shape, N, T), ground(T), term_variables(T, []),
    c34_build(Shape, N, V, T3),
    (   Shape == string -> true
    ;   \+ ground(T3), term_variables(T3, Vs), Vs == [V], acyclic_term(T3)
    ).
c34_op(univ_functor, Shape, N, _) :-
    c34_term(Shape, N, T), T =.. [F|Args], functor(T, F2, A), F == F2, length(Args, A),
    T2 =.. [F|Args], T2 == T, arg(A, T, Last), nonvar(Last).
c34_op(throw_catch, Shape, N, _) :-
    c34_term(Shape, N, T), catch(throw(T), B, true), B == T.
c34_op(atom_roundtrip, string, N, _) :-
    c34_term(string, N, T), atom_chars(A, T), atom_length(A, L), L == N,
    atom_chars(A, Cs2), Cs2 == T, atom_codes(A, Codes), atom_codes(A2, Codes), A2 == A.
c34_op(number_roundtrip, string, N, _) :-
    N1 is min(N, 100000),
    c34_list(N1, '7', [], Ds), number_chars(Num, Ds), integer(Num),
    number_chars(Num, Ds2), Ds2 == Ds, number_codes(Num, Cs), length(Cs, N1).
c34_op(term_size, Shape, N, _) :-
    % an explicit traversal written in Prolog (deep recursion on the Prolog side, not native)
    c34_term(Shape, N, T), c34_count(T, 0, C), C >= N // 2.

% iterative node count with an explicit agenda
c34_count(T, C0, C) :- c34_count_([T], C0, C).
c34_count_([], C, C).
c34_count_([T|Ts], C0, C) :-
    C1 is C0 + 1,
    (   compound(T) -> T =.. [_|Args], c34_push(Args, Ts, Ts1), c34_count_(Ts1, C1, C)
    ;   c34_count_(Ts, C1, C)
    ).
c34_push([], Ts, Ts).
c34_push([A|As], Ts, [A|Ts1]) :- c34_push(As, Ts, Ts1).

c34_ready(yes).
