% C09: interpreter for update histories over the dynamic predicate c09p/2.
:- use_module(library(lists)).
:- use_module(library(iso_ext)).
:- dynamic(c09p/2).
% The event log must not touch the clause database (an assertz of a log entry would advance the
% global update clock between a cursor's call and the updates under test): it is kept in a
% non-backtrackable global variable.
c09_reset :- retractall(c09p(_,_)), bb_put(c09log, []).

c09_log(X) :- bb_get(c09log, L), bb_put(c09log, [X|L]).

c09_run(Steps, Log) :-
    c09_reset,
    c09_steps(Steps),
    findall(I, c09p(_, I), Final),
    c09_log(final(Final)),
    bb_get(c09log, RLog),
    reverse(RLog, Log).

c09_steps([]).
c09_steps([S|Ss]) :- ( c09_step(S) -> true ; c09_log(step_failed) ), c09_steps(Ss).

c09_step(az(K, I)) :- assertz(c09p(K, I)).
c09_step(aa(K, I)) :- asserta(c09p(K, I)).
c09_step(rt(K)) :- ( retract(c09p(K, I)) -> c09_log(rt(I)) ; c09_log(rt(none)) ).
c09_step(rtn(N)) :-
    findall(I, c09p(_, I), Is),
    length(Is, Len),
    (   Len > 0 ->
        Idx is (N * Len) >> 8,
        Idx1 is Idx + 1,
        c09_nth1(Idx1, Is, Id),
        ( retract(c09p(_, Id)) -> c09_log(rt(Id)) ; c09_log(rt(none)) )
    ;   c09_log(rt(none))
    ).
c09_step(ra(K)) :- retractall(c09p(K, _)).
c09_step(pr(K)) :- findall(I, c09p(K, I), L), c09_log(pr(L)).
c09_step(prc(K)) :- findall(I, clause(c09p(K, I), true), L), c09_log(pr(L)).
c09_step(cur(Id, Kind, K, Subs, Cut)) :-
    bb_put(Id, 0),
    length(Subs, Len),
    (   c09_goal(Kind, K, I),
        bb_get(Id, N0), N is N0 + 1, bb_put(Id, N),
        c09_log(sol(Id, I)),
        ( c09_nth1(N, Subs, H) -> c09_steps(H) ; true ),
        Cut == true, N >= Len
    ->  c09_log(cut(Id))
    ;   c09_log(end(Id))
    ).

c09_goal(call, K, I) :- c09p(K, I).
c09_goal(clause, K, I) :- clause(c09p(K, I), true).
c09_goal(retract, K, I) :- retract(c09p(K, I)).

c09_nth1(1, [X|_], X) :- !.
c09_nth1(N, [_|Xs], X) :- N > 1, N1 is N - 1, c09_nth1(N1, Xs, X).
