% helper closures for C54 (called with two more arguments: the element and the truth value)
c54_either(A, B, X, T) :- ;(X = A, X = B, T).
c54_neither(A, B, X, T) :- ','(dif(X, A), dif(X, B), T).
