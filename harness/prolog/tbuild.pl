% Term builder: realises one abstract term through different constructors so that every heap
% representation (list cells, partial strings, '.'/2 structures, fixnums/bignums, copies) is reached.
% Needs support.pl (vp_binding/4, vp_codes_chars/2, vp_var_idx/4). Specs are ground terms made of
% integers, floats, fixed atoms and proper lists only.
%
%   v(N) i(I) ib(I) in(Codes) f(F) r(N,D) a(Codes) ac(Codes)
%   s(Codes)            list of one-char atoms built from cons cells
%   sp(Codes)           atom_chars(Atom, S)
%   sq(Codes, Tail)     partial_string(Chars, S, T) with T given at the call
%   sr(Codes, Tail)     partial_string(Chars, S, T0), T0 = T afterwards
%   l(Items, Tail)      cons cells        c(NameCodes, Args)  =../2
%   cf(NameCodes, Args) functor/3 + arg/3
%   cp(S) fa(S) as(S)   copy_term / findall / assertz+retract copy of the built subterm (ground S only)
%   rd(Codes)           read_from_chars of the text (ground terms only)

:- use_module(library(iso_ext)).
:- use_module(library(charsio)).
:- use_module(library(lists)).

:- dynamic(tb_tmp/1).

tb_build(Spec, T) :- tb_(Spec, T, [], _).

% several specs sharing variables
tb_builds(Specs, Ts) :- tb_all(Specs, Ts, [], _).

tb_(v(N), T, B0, B) :- !, vp_binding(N, B0, B, T).
tb_(i(I), T, B, B) :- !, T = I.
tb_(ib(I), T, B, B) :- !, T is I + 1208925819614629174706176 - 1208925819614629174706176.
tb_(in(Cs), T, B, B) :- !, number_codes(T, Cs).
tb_(f(F), T, B, B) :- !, T = F.
tb_(r(N, D), T, B, B) :- !, T is N rdiv D.
tb_(a(Cs), T, B, B) :- !, atom_codes(T, Cs).
tb_(ac(Cs), T, B, B) :- !, vp_codes_chars(Cs, Chs), atom_chars(T, Chs).
tb_(s(Cs), T, B, B) :- !, vp_codes_chars(Cs, T).
tb_(sp(Cs), T, B, B) :- !, atom_codes(A, Cs), atom_chars(A, T).
tb_(sq(Cs, Tail), T, B0, B) :- !,
    vp_codes_chars(Cs, Chs), tb_(Tail, TT, B0, B), partial_string(Chs, T, TT).
tb_(sr(Cs, Tail), T, B0, B) :- !,
    vp_codes_chars(Cs, Chs), partial_string(Chs, T, T0), tb_(Tail, TT, B0, B), T0 = TT.
tb_(l(Items, Tail), T, B0, B) :- !,
    tb_all(Items, Is, B0, B1), tb_(Tail, TT, B1, B), tb_app(Is, TT, T).
tb_(c(Cs, Args), T, B0, B) :- !,
    atom_codes(N, Cs), tb_all(Args, As, B0, B), T =.. [N|As].
tb_(cf(Cs, Args), T, B0, B) :- !,
    atom_codes(N, Cs), tb_all(Args, As, B0, B), length(As, Ar), functor(T, N, Ar), tb_setargs(As, 1, T).
tb_(cp(S), T, B0, B) :- !, tb_(S, T0, B0, B), copy_term(T0, T).
tb_(fa(S), T, B0, B) :- !, tb_(S, T0, B0, B), findall(T0, true, [T]).
tb_(as(S), T, B0, B) :- !, tb_(S, T0, B0, B), retractall(tb_tmp(_)), assertz(tb_tmp(T0)), retract(tb_tmp(T)).
tb_(rd(Cs), T, B, B) :- !, vp_codes_chars(Cs, Chs), read_from_chars(Chs, T).

tb_all([], [], B, B).
tb_all([S|Ss], [T|Ts], B0, B) :- tb_(S, T, B0, B1), tb_all(Ss, Ts, B1, B).

tb_app([], T, T).
tb_app([X|Xs], T, [X|Ys]) :- tb_app(Xs, T, Ys).

tb_setargs([], _, _).
tb_setargs([A|As], I, T) :- arg(I, T, A), I1 is I + 1, tb_setargs(As, I1, T).

% ---------------------------------------------------------------------------
% rt_enc(+Term, +Depth, -Enc): like vp_enc but safe on cyclic terms: compounds nested deeper
% than Depth become a([36,99,117,116]) ('$cut'); list cells are encoded as c([46],[H,T]).

rt_enc(T, D, E) :- rt_enc_(T, D, E, [], _).

rt_enc_(T, D, E, Vs0, Vs) :-
    (   var(T) -> vp_var_idx(T, Vs0, Vs, N), E = v(N)
    ;   integer(T) -> E = i(T), Vs = Vs0
    ;   float(T) -> E = f(T), Vs = Vs0
    ;   number(T) -> rational_numerator_denominator(T, N, Dn), E = r(N, Dn), Vs = Vs0
    ;   atom(T) -> atom_codes(T, Cs), E = a(Cs), Vs = Vs0
    ;   D =< 0 -> E = a([36,99,117,116]), Vs = Vs0
    ;   functor(T, Name, Arity),
        atom_codes(Name, Cs),
        D1 is D - 1,
        rt_enc_args(1, Arity, T, D1, Args, Vs0, Vs),
        E = c(Cs, Args)
    ).

rt_enc_args(I, Arity, T, D, Args, Vs0, Vs) :-
    (   I > Arity -> Args = [], Vs = Vs0
    ;   arg(I, T, A),
        rt_enc_(A, D, EA, Vs0, Vs1),
        Args = [EA|Args1],
        I1 is I + 1,
        rt_enc_args(I1, Arity, T, D, Args1, Vs1, Vs)
    ).

% rt_encb(+Term, +Budget, -Enc): pre-order, left-to-right unfolding that expands at most Budget
% compound nodes; a compound reached with no budget left becomes '$cut'. Safe on cyclic terms.

rt_encb(T, K, E) :- rt_encb_(T, E, K, _, [], _).

rt_encb_(T, E, K0, K, Vs0, Vs) :-
    (   var(T) -> vp_var_idx(T, Vs0, Vs, N), E = v(N), K = K0
    ;   integer(T) -> E = i(T), Vs = Vs0, K = K0
    ;   float(T) -> E = f(T), Vs = Vs0, K = K0
    ;   number(T) -> rational_numerator_denominator(T, N, Dn), E = r(N, Dn), Vs = Vs0, K = K0
    ;   atom(T) -> atom_codes(T, Cs), E = a(Cs), Vs = Vs0, K = K0
    ;   K0 =< 0 -> E = a([36,99,117,116]), Vs = Vs0, K = K0
    ;   functor(T, Name, Arity),
        atom_codes(Name, Cs),
        K1 is K0 - 1,
        rt_encb_args(1, Arity, T, Args, K1, K, Vs0, Vs),
        E = c(Cs, Args)
    ).

rt_encb_args(I, Arity, T, Args, K0, K, Vs0, Vs) :-
    (   I > Arity -> Args = [], Vs = Vs0, K = K0
    ;   arg(I, T, A),
        rt_encb_(A, EA, K0, K1, Vs0, Vs1),
        Args = [EA|Args1],
        I1 is I + 1,
        rt_encb_args(I1, Arity, T, Args1, K1, K, Vs1, Vs)
    ).

% rt_unfold(+Term, +Budget, -Finite): Finite is a finite copy of Term (same variables) in which
% at most Budget compound nodes are expanded in pre-order, left to right; a compound reached
% with no budget left is replaced by the atom '$cut'. Terminates on cyclic terms.

rt_unfold(T, K, U) :- rt_unfold_(T, U, K, _).

rt_unfold_(T, U, K0, K) :-
    (   var(T) -> U = T, K = K0
    ;   atomic(T) ->
        (   number(T), \+ integer(T), \+ float(T) ->
            % rationals: vp_enc/2 would leave choice points (rational_numerator_denominator/3)
            tb_rat_nd(T, N, D), U = '$rat'(N, D)
        ;   U = T
        ),
        K = K0
    ;   K0 =< 0 -> U = '$cut', K = K0
    ;   functor(T, Name, Arity),
        functor(U, Name, Arity),
        K1 is K0 - 1,
        rt_unfold_args(1, Arity, T, U, K1, K)
    ).

rt_unfold_args(I, Arity, T, U, K0, K) :-
    (   I > Arity -> K = K0
    ;   arg(I, T, A),
        rt_unfold_(A, UA, K0, K1),
        arg(I, U, UA),
        I1 is I + 1,
        rt_unfold_args(I1, Arity, T, U, K1, K)
    ).

tb_rat_nd(R, N, D) :- once(rational_numerator_denominator(R, N, D)).

tb_loaded(tbuild).
