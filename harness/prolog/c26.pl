% helpers for C26: a non-backtrackable and a backtrackable log of fired goals and markers
c26_reset :- bb_put(c26_nb, []), bb_b_put(c26_b, []).
c26_log(X) :-
    bb_get(c26_nb, L), bb_put(c26_nb, [X|L]),
    bb_get(c26_b, M), bb_b_put(c26_b, [X|M]).
c26_mark(I) :- c26_log(m(I)).
c26_g(K, tok, _, _) :- c26_log(t(K)).
c26_g(K, bind, V, T) :- c26_log(t(K)), V = T.
c26_g(K, fail, _, _) :- c26_log(t(K)), fail.
c26_logs(NB, B) :-
    bb_get(c26_nb, L), reverse(L, NB),
    bb_get(c26_b, M), reverse(M, B).

% unification through the head of an asserted fact (compiled head instructions, e.g. get_partial_string
% for a string) instead of =/2
:- dynamic(c26_h/1).
c26_hu(V, T) :- retractall(c26_h(_)), assertz(c26_h(T)), c26_h(V).
