% Helpers of C12 (exceptions / setup_call_cleanup): token log and fixed helper predicates.
% The same clauses (without the log predicates, which are builtins of the reference interpreter)
% are given to the reference interpreter: see HELPERS in src/props/c12.rs.

vp_log_reset :- bb_put(vp_log, []).
vp_tok(K) :- bb_get(vp_log, L), bb_put(vp_log, [t(K)|L]).
vp_tok(K, V) :- bb_get(vp_log, L), bb_put(vp_log, [t(K, V)|L]).
vp_log_get(L) :- bb_get(vp_log, L0), vp_rev(L0, [], L).

vp_rev([], A, A).
vp_rev([X|Xs], A, R) :- vp_rev(Xs, [X|A], R).

c12_n2(1).
c12_n2(2).
c12_n3(a).
c12_n3(b).
c12_n3(c).
c12_thr(B) :- throw(B).
c12_nop.
c12_deep(N, B) :- ( N =< 0 -> throw(B) ; N1 is N - 1, c12_deep(N1, B), c12_nop ).
c12_deepc(N, B) :- ( N =< 0 -> throw(B) ; N1 is N - 1, c12_n2(_), c12_deepc(N1, B) ).
c12_id(X, X).
