% C48 helpers: one file-system operation per query, outcome reified and encoded inside Prolog
% (ok(Value) | failed | ex(Ball)).

c48_do(Spec, Enc) :-
    catch(( c48_op(Spec, V) -> R = ok(V) ; R = failed ), E, R = ex(E)),
    vp_enc(R, Enc).

c48_op(fe(P), true) :- file_exists(P).
c48_op(de(P), true) :- directory_exists(P).
c48_op(fs(P), S) :- file_size(P, S).
c48_op(fs_is(P, S), true) :- file_size(P, S).
c48_op(df(P), Fs) :- directory_files(P, Fs).
c48_op(md(P), true) :- make_directory(P).
c48_op(mdp(P), true) :- make_directory_path(P).
c48_op(rmf(P), true) :- delete_file(P).
c48_op(rmd(P), true) :- delete_directory(P).
c48_op(mv(A, B), true) :- rename_file(A, B).
c48_op(cp(A, B), true) :- file_copy(A, B).
c48_op(canon(P), C) :- path_canonical(P, C).
c48_op(seg(P), Ss) :- path_segments(P, Ss).
c48_op(join(Ss), P) :- path_segments(P, Ss).
c48_op(segboth(P, Ss), true) :- path_segments(P, Ss).
c48_op(bad(Pred, K), true) :- c48_bad(K, X), c48_call_bad(Pred, X).
c48_op(bad2(Pred, A, K), true) :- c48_bad(K, X), c48_call_bad2(Pred, A, X).

c48_bad(0, _).
c48_bad(1, foo).
c48_bad(2, 42).
c48_bad(3, [1,2]).
c48_bad(4, [a,b|_]).
c48_bad(5, f(x)).
c48_bad(6, [a,bc]).
c48_bad(7, 1.5).

c48_call_bad(fe, X) :- file_exists(X).
c48_call_bad(de, X) :- directory_exists(X).
c48_call_bad(fs, X) :- file_size(X, _).
c48_call_bad(df, X) :- directory_files(X, _).
c48_call_bad(md, X) :- make_directory(X).
c48_call_bad(mdp, X) :- make_directory_path(X).
c48_call_bad(rmf, X) :- delete_file(X).
c48_call_bad(rmd, X) :- delete_directory(X).
c48_call_bad(mv, X) :- rename_file(X, "zz").
c48_call_bad(cp, X) :- file_copy(X, "zz").
c48_call_bad(canon, X) :- path_canonical(X, _).
c48_call_bad(seg, X) :- ( var(X) -> path_segments(X, _) ; path_segments(X, _) ).

% second argument ill-typed, first one an existing file
c48_call_bad2(mv, A, X) :- rename_file(A, X).
c48_call_bad2(cp, A, X) :- file_copy(A, X).
