% C23 helpers: run one inspection/construction builtin on built arguments and reify the outcome
% together with the argument terms as they are afterwards.

c23_goal(functor,  [T,N,A], functor(T,N,A)).
c23_goal(arg,      [N,T,A], arg(N,T,A)).
c23_goal(univ,     [T,L],   T =.. L).
c23_goal(copy,     [T,C],   copy_term(T,C)).
c23_goal(tvars,    [T,Vs],  term_variables(T,Vs)).
c23_goal(ground,   [T],     ground(T)).
c23_goal(subsumes, [G,S],   subsumes_term(G,S)).

c23_exec(Op, Ts, Res) :-
    c23_goal(Op, Ts, Goal),
    catch(( call(Goal) -> R = yes ; R = no ), E, R = ex(E)),
    rt_unfold(r(R, Ts), 100000, Res).

c23_run(Op, Specs, Res) :-
    tb_builds(Specs, Ts),
    c23_exec(Op, Ts, Res).

c23_run_text(Op, Codes, Res) :-
    vp_codes_chars(Codes, Chars),
    read_from_chars(Chars, Ts),
    c23_exec(Op, Ts, Res).

% the same builtin called twice on the same arguments must give the same outcome (no state left
% behind in the terms): Res = r(R1, R2, Ts)
c23_twice(Op, Specs, Res) :-
    tb_builds(Specs, Ts),
    c23_goal(Op, Ts, Goal),
    catch(( \+ \+ call(Goal) -> R1 = yes ; R1 = no ), E1, R1 = ex(E1)),
    catch(( \+ \+ call(Goal) -> R2 = yes ; R2 = no ), E2, R2 = ex(E2)),
    rt_unfold(r(R1, R2, Ts), 100000, Res).
