% helpers of C05 (consulted into module user after support.pl)
% needs: lists, between, assoc, format, iso_ext, dif, ordsets

:- dynamic(c05k/2).
:- dynamic(c05s/1).
:- dynamic(c05s2/1).

% ---------------------------------------------------------------------------
% c05_make(+Recipe, +V, -X): X is the integer V produced along the path Recipe.
% V is the literal. Every recipe must give a number equal to V.

c05_make(literal, V, V).
c05_make(number_codes, V, X) :- number_codes(V, Cs), number_codes(X, Cs).
c05_make(number_chars, V, X) :- number_chars(V, Cs), number_chars(X, Cs).
c05_make(cloth, V, X) :- X is 2^70 - 2^70 + V.
c05_make(muldiv, V, X) :- X is V * 2^64 // 2^64.
c05_make(addsub, V, X) :- X is (V + 2^80) - 2^80.
c05_make(shift, V, X) :- X is (V << 70) >> 70.
c05_make(negneg, V, X) :- X is -(-(V)).
c05_make(min_big, V, X) :- ( V >= 0 -> X is min(V, 2^90 + V) ; X is max(V, -(2^90) + V) ).
c05_make(mul3div, V, X) :- X is (V * 3^50) div 3^50.
c05_make(xor_twice, V, X) :- X is xor(xor(V, 2^72), 2^72).
c05_make(gcd_abs, V, X) :- ( V >= 0 -> X is gcd(V, 0) ; X is -gcd(V, 0) ).
c05_make(truncate_float, V, X) :- F is float(V), X is truncate(F).
c05_make(floor_float, V, X) :- F is float(V), X is floor(F).
c05_make(round_float, V, X) :- F is float(V), X is round(F).
c05_make(ceiling_float, V, X) :- F is float(V), X is ceiling(F).
c05_make(truncate_rational, V, X) :- X is truncate(V rdiv 1).
c05_make(rational_n_over_1, V, X) :- X is V rdiv 1.
c05_make(rational_halves, V, X) :- X is (V rdiv 2) * 2.
c05_make(length, V, X) :- length(L, V), length(L, X).
c05_make(string_length, V, X) :- length(L, V), c05_fill(L), length(L, X).
c05_make(atom_length, V, X) :- length(L, V), c05_fill(L), atom_chars(A, L), atom_length(A, X).
c05_make(succ_of_pred, V, X) :- P is V - 1, succ(P, X).
c05_make(pred_of_succ, V, X) :- S is V + 1, succ(X, S).
c05_make(between_single, V, X) :- between(V, V, X).
c05_make(between_last, V, X) :- c05_last_between(0, V, X).
c05_make(char_code, V, X) :- char_code(C, V), char_code(C, X).
c05_make(arity, V, X) :- length(L, V), T =.. [f|L], functor(T, _, X).
c05_make(nth0_index, V, X) :- V1 is V + 1, length(L, V1), c05_last_is(L, here), nth0(X, L, E), E == here.
c05_make(sub_atom_before, V, X) :- length(L, V), c05_fill(L), atom_chars(A0, L), atom_concat(A0, 'Z', A), sub_atom(A, X, 1, 0, 'Z').
c05_make(findall_copy, V, X) :- Y is 2^70 - 2^70 + V, findall(Z, Z = Y, [X]).
c05_make(asserted, V, X) :- Y is 2^70 - 2^70 + V, retractall(c05s2(_)), assertz(c05s2(Y)), c05s2(X), retractall(c05s2(_)).
c05_make(bb, V, X) :- Y is 2^70 - 2^70 + V, bb_put(c05_mk, Y), bb_get(c05_mk, X).
c05_make(sum_list, V, X) :- A is V - 7, sum_list([A, 3, 4], X).
c05_make(format_read, V, X) :- phrase(format_("~d", [V]), Cs), number_chars(X, Cs).

c05_fill([]).
c05_fill([a|T]) :- c05_fill(T).

c05_last_is([X], X) :- !.
c05_last_is([_|T], X) :- c05_last_is(T, X).

c05_last_between(Lo, Hi, X) :- findall(Y, between(Lo, Hi, Y), Ys), c05_last_is(Ys, X).

% ---------------------------------------------------------------------------
% contexts: c05_do(+Name, +X, +V, -Out). X is the produced number, V the literal.
% "small" contexts build something of size V and are only run for 0 =< V =< 64.

c05_small(V) :- integer(V), V >= 0, V =< 64.

c05_ctxs([unify, unify_struct, identical, identical_struct, not_identical, not_unifiable, compare, compare_struct,
          order_lt, order_gt, order_le, sort_dedup, sort_neighbours, keysort_stable, keysort_order,
          ord_set, memberchk, member_rev, dif, setof,
          type_integer, type_number, type_atomic, type_float, type_var, ground,
          eq_arith, is_plus0, is_idiv1, is_mod7, is_and255, is_shr1, is_neg, is_mul_big, is_float, lt_succ, is_max, is_abs, is_sign, is_pow,
          succ_up, succ_down, between_self, between_window, number_codes, number_chars, format_d, format_w, atom_from_number,
          univ, functor_name, copy_term, findall, bb, assert_then_literal, assert_literal_then_x, retract_by_literal, retract_by_x,
          clause_select, clause_select_rev, assoc_get, assoc_put,
          arg_index, functor_arity, length_list, length_check, nth0, nth1, atom_length_check, sub_atom_at, char_code, between_upto, numlist_sum, tab_format]).

c05_all([], _, _, []).
c05_all([N|Ns], X, V, [N-O|Rs]) :- c05_try(N, X, V, O), c05_all(Ns, X, V, Rs).

c05_try(N, X, V, O) :-
    catch(( c05_do(N, X, V, O0) -> O = O0 ; O = failed ),
          E,
          ( nonvar(E), E = error(F, _) -> O = err(F) ; O = ball(E) )).

c05_tf(G, R) :- ( call(G) -> R = t ; R = f ).

c05_do(unify, X, V, R) :- c05_tf(X = V, R).
c05_do(unify_struct, X, V, R) :- c05_tf(f(X, [X|g(X)]) = f(V, [V|g(V)]), R).
c05_do(identical, X, V, R) :- c05_tf(X == V, R).
c05_do(identical_struct, X, V, R) :- c05_tf(f(X, "ab", [X]) == f(V, "ab", [V]), R).
c05_do(not_identical, X, V, R) :- c05_tf(X \== V, R).
c05_do(not_unifiable, X, V, R) :- c05_tf(X \= V, R).
c05_do(compare, X, V, O) :- compare(O, X, V).
c05_do(compare_struct, X, V, O1-O2) :- V1 is V + 1, compare(O1, g(X, a), g(V, b)), compare(O2, h(X), h(V1)).
c05_do(order_lt, X, V, R1-R2) :- c05_tf(X @< V, R1), c05_tf(V @< X, R2).
c05_do(order_gt, X, V, R1-R2) :- V0 is V - 1, c05_tf(X @> V0, R1), c05_tf(X @> V, R2).
c05_do(order_le, X, V, R1-R2) :- c05_tf(X @=< V, R1), c05_tf(X @>= V, R2).
c05_do(sort_dedup, X, V, R) :- sort([X, V, X], L), c05_tf(L == [V], R).
c05_do(sort_neighbours, X, V, R) :- V0 is V - 1, V1 is V + 1, sort([V1, X, V0, 1.5, a], L), c05_same_order(L, [1.5, V0, V, V1, a], R).
c05_do(keysort_stable, X, V, R) :- keysort([X-a, V-b, X-c], L), c05_tf(L == [V-a, V-b, V-c], R).
c05_do(keysort_order, X, V, R) :- V0 is V - 1, V1 is V + 1, keysort([V1-a, X-b, V0-c], L), c05_tf(L == [V0-c, V-b, V1-a], R).
c05_do(ord_set, X, V, R) :- list_to_ord_set([X, V], S), c05_tf(S == [V], R).
c05_do(memberchk, X, V, R) :- V1 is V + 1, c05_tf(memberchk(X, [V1, V]), R).
c05_do(member_rev, X, V, R) :- c05_tf(( member(Y, [X]), Y == V ), R).
c05_do(dif, X, V, R) :- c05_tf(dif(X, V), R).
c05_do(setof, X, V, R) :- setof(Y, member(Y, [X, V]), L), c05_tf(L == [V], R).
c05_do(type_integer, X, _, R) :- c05_tf(integer(X), R).
c05_do(type_number, X, _, R) :- c05_tf(number(X), R).
c05_do(type_atomic, X, _, R) :- c05_tf(atomic(X), R).
c05_do(type_float, X, _, R) :- c05_tf(float(X), R).
c05_do(type_var, X, _, R1-R2) :- c05_tf(var(X), R1), c05_tf(callable(X), R2).
c05_do(ground, X, _, R) :- c05_tf(ground(f(X)), R).
c05_do(eq_arith, X, V, R1-R2) :- c05_tf(X =:= V, R1), c05_tf(X =\= V, R2).
c05_do(is_plus0, X, V, R) :- Y is X + 0, c05_tf(Y == V, R).
c05_do(is_idiv1, X, V, R) :- Y is X // 1, c05_tf(Y == V, R).
c05_do(is_mod7, X, V, R) :- Y is X mod 7, Z is V mod 7, c05_tf(Y == Z, R).
c05_do(is_and255, X, V, R) :- Y is X /\ 255, Z is V /\ 255, c05_tf(Y == Z, R).
c05_do(is_shr1, X, V, R) :- Y is X >> 1, Z is V >> 1, c05_tf(Y == Z, R).
c05_do(is_neg, X, V, R) :- Y is -X, Z is -V, c05_tf(Y == Z, R).
c05_do(is_mul_big, X, V, R) :- Y is X * 1267650600228229401496703205376, Z is V * 1267650600228229401496703205376, c05_tf(Y == Z, R).
c05_do(is_float, X, V, R) :- Y is float(X), Z is float(V), c05_tf(Y == Z, R).
c05_do(lt_succ, X, V, R1-R2) :- c05_tf(X < V + 1, R1), c05_tf(X > V - 1, R2).
c05_do(is_max, X, V, R) :- V0 is V - 1, Y is max(X, V0), c05_tf(Y == V, R).
c05_do(is_abs, X, V, R) :- Y is abs(X), Z is abs(V), c05_tf(Y == Z, R).
c05_do(is_sign, X, V, R) :- Y is sign(X), Z is sign(V), c05_tf(Y == Z, R).
c05_do(is_pow, X, V, R) :- Y is X ^ 2, Z is V ^ 2, c05_tf(Y == Z, R).
c05_do(succ_up, X, V, R) :- ( V >= 0 -> succ(X, S), S1 is V + 1, c05_tf(S == S1, R) ; c05_err_of(succ(X, _), R) ).
c05_do(succ_down, X, V, R) :- ( V >= 1 -> succ(P, X), P1 is V - 1, c05_tf(P == P1, R) ; c05_err_of(succ(_, X), R) ).
c05_do(between_self, X, V, R) :- findall(Y, between(X, X, Y), L), c05_tf(L == [V], R).
c05_do(between_window, X, V, R) :- V0 is V - 1, V1 is V + 1, findall(Y, between(V0, X, Y), L1), findall(Y, between(X, V1, Y), L2), c05_tf(L1-L2 == [V0, V]-[V, V1], R).
c05_do(number_codes, X, V, R) :- number_codes(X, Cs), number_codes(V, Ds), c05_tf(Cs == Ds, R).
c05_do(number_chars, X, V, R) :- number_chars(X, Cs), number_chars(V, Ds), c05_tf(Cs == Ds, R).
c05_do(format_d, X, V, R) :- phrase(format_("~d", [X]), Cs), phrase(format_("~d", [V]), Ds), c05_tf(Cs == Ds, R).
c05_do(format_w, X, V, R) :- phrase(format_("~w ~q ~a", [X, X, x]), Cs), phrase(format_("~w ~q ~a", [V, V, x]), Ds), c05_tf(Cs == Ds, R).
c05_do(atom_from_number, X, V, R) :- number_chars(X, Cs), atom_chars(A, Cs), number_chars(V, Ds), atom_chars(B, Ds), c05_tf(A == B, R).
c05_do(univ, X, V, R) :- T =.. [f, X, X], c05_tf(T == f(V, V), R).
c05_do(functor_name, X, V, R) :- functor(T, X, 0), c05_tf(T == V, R).
c05_do(copy_term, X, V, R) :- copy_term(f(X, _), f(Y, _)), c05_tf(Y == V, R).
c05_do(findall, X, V, R) :- findall(Y-Z, ( Y = X, Z = g(X) ), L), c05_tf(L == [V-g(V)], R).
c05_do(bb, X, V, R) :- bb_put(c05_key, X), bb_get(c05_key, Y), c05_tf(Y == V, R).
c05_do(assert_then_literal, X, V, R) :- retractall(c05s(_)), assertz(c05s(X)), c05_tf(c05s(V), R), retractall(c05s(_)).
c05_do(assert_literal_then_x, X, V, R) :- retractall(c05s(_)), assertz(c05s(V)), c05_tf(c05s(X), R), retractall(c05s(_)).
c05_do(retract_by_literal, X, V, R) :- retractall(c05s(_)), assertz(c05s(X)), c05_tf(retract(c05s(V)), R1), c05_tf(c05s(_), R2), R = R1-R2, retractall(c05s(_)).
c05_do(retract_by_x, X, V, R) :- retractall(c05s(_)), assertz(c05s(V)), c05_tf(retract(c05s(X)), R1), c05_tf(c05s(_), R2), R = R1-R2, retractall(c05s(_)).
% First-argument indexing compares integers outside the small-integer range by object, not by
% value (known finding, C06's subject): excluded here by construction for such values and
% witnessed by the single-context cases clause_select_big / clause_select_rev_big.
c05_do(clause_select, X, V, R) :- c05_fix_range(V), !, c05_clause_select(X, V, R).
c05_do(clause_select, _, _, skipped).
c05_do(clause_select_big, X, V, R) :- c05_clause_select(X, V, R).
c05_do(clause_select_rev, X, V, R) :- c05_fix_range(V), !, c05_clause_select_rev(X, V, R).
c05_do(clause_select_rev, _, _, skipped).
c05_do(clause_select_rev_big, X, V, R) :- c05_clause_select_rev(X, V, R).

c05_do(assoc_get, X, V, R) :- V1 is V + 1, list_to_assoc([V1-hi, X-here], A), ( get_assoc(V, A, W) -> R = W ; R = none ).
c05_do(assoc_put, X, V, R) :- list_to_assoc([V-old], A), put_assoc(X, A, new, A2), assoc_to_list(A2, L), c05_tf(L == [V-new], R).
% --- contexts that index or allocate by the value: same outcome as for the literal, whatever it is
c05_do(arg_index, X, V, R) :- ( arg(X, f(a, b, c), A) -> R = arg(A) ; R = none ), c05_ignore(V).
c05_do(functor_arity, X, V, R) :- ( c05_small(V) ; V < 0, V >= -36028797018963968 ; V > 2^40, V =< 36028797018963967 ), !, functor(T, foo, X), functor(T, _, N), c05_tf(N == V, R).
c05_do(functor_arity, _, _, skipped).
% (length/2 with a count beyond 64 bits raises a malformed resource error whose ball contains the
% calling goal: not comparable, and not this property's subject)
c05_do(length_list, X, V, R) :- ( c05_small(V) ; V < 0, V >= -36028797018963968 ), !, length(L, X), length(L, N), c05_tf(N == V, R).
c05_do(length_list, _, _, skipped).
c05_do(length_check, X, V, R) :- c05_tf(length([a, b, c], X), R), c05_ignore(V).
c05_do(nth0, X, V, R) :- ( nth0(X, [a, b, c, d], E) -> R = E ; R = none ), c05_ignore(V).
c05_do(nth1, X, V, R) :- ( nth1(X, [a, b, c, d], E) -> R = E ; R = none ), c05_ignore(V).
c05_do(atom_length_check, X, V, R) :- c05_tf(atom_length(abc, X), R), c05_ignore(V).
c05_do(sub_atom_at, X, V, R) :- ( sub_atom(abcdef, X, 1, _, S) -> R = S ; R = none ), c05_ignore(V).
% (char_code/2 used to panic on integers outside the small-integer range: fixed by a60600d; the
% single-context name char_code_big is kept for the stored witness)
c05_do(char_code, X, V, R) :- ( char_code(C, X) -> R = C ; R = none ), c05_ignore(V).
c05_do(char_code_big, X, V, R) :- ( char_code(C, X) -> R = C ; R = none ), c05_ignore(V).
c05_do(between_upto, X, V, R) :- ( V =< 64 ), !, findall(Y, between(60, X, Y), L), R = L.
c05_do(between_upto, _, _, skipped).
c05_do(numlist_sum, X, V, R) :- c05_small(V), !, findall(Y, between(1, X, Y), L), sum_list(L, S), length(L, N), R = S-N.
c05_do(numlist_sum, _, _, skipped).
c05_do(tab_format, X, V, R) :- c05_small(V), !, phrase(format_("~t~w~*|", [x, X]), Cs), length(Cs, N), R = N.
c05_do(tab_format, _, _, skipped).

c05_ignore(_).

c05_fix_range(V) :- V >= -36028797018963968, V =< 36028797018963967.

c05_clause_select(X, V, R) :-
    retractall(c05k(_, _)),
    V0 is V - 1, V1 is V + 1,
    assertz(c05k(V0, lo)), assertz(c05k(foo, atom)), assertz(c05k(V, hit)), assertz(c05k(1.5, flt)), assertz(c05k(V1, hi)),
    findall(Y, c05k(X, Y), L), R = L,
    retractall(c05k(_, _)).
c05_clause_select_rev(X, V, R) :-
    retractall(c05k(_, _)),
    V0 is V - 1, V1 is V + 1,
    assertz(c05k(V0, lo)), assertz(c05k(foo, atom)), assertz(c05k(X, hit)), assertz(c05k(1.5, flt)), assertz(c05k(V1, hi)),
    findall(Y, c05k(V, Y), L), R = L,
    retractall(c05k(_, _)).

c05_err_of(G, R) :- catch(( call(G) -> R = succeeded ; R = failed ), E, ( nonvar(E), E = error(F, _) -> R = err(F) ; R = ball(E) )).

c05_same_order(L, M, R) :- c05_tf(L == M, R).

% A rational with denominator 1 passes integer/1 but cannot be carried by the transport
% encoding: replaced by a marker that says what it is.
c05_fix(T0, T) :-
    (   var(T0) -> T = T0
    ;   integer(T0) ->
        (   catch(_ is T0 // 1, _, fail) -> T = T0
        ;   T1 is truncate(T0), T = '$integral_rational'(T1)
        )
    ;   atomic(T0) -> T = T0
    ;   T0 =.. [F|As], c05_fix_list(As, Bs), T =.. [F|Bs]
    ).

c05_fix_list([], []).
c05_fix_list([A|As], [B|Bs]) :- c05_fix(A, B), c05_fix_list(As, Bs).

% c05_case(+Recipe, +V, +Sel, -Result): Result = made(Xfixed, Rs) | nomake(Why)
% Sel = all | list of context names
c05_case(Recipe, V, Sel, Result) :-
    catch(( c05_make(Recipe, V, X) -> M = ok ; M = failed ), E, M = raised(E)),
    (   M == ok ->
        ( Sel == all -> c05_ctxs(Ns) ; Ns = Sel ),
        c05_all(Ns, X, V, Rs0),
        c05_fix(made(X, Rs0), Result)
    ;   c05_fix(nomake(M), Result)
    ).

c05_loaded.
