% C24 helpers: realise a term graph by solving an equation system with =/2, then run one
% operation per solution so that the harness can look at the heap between the steps.

% Eqs = [I-Node, ...] in solving order; nodes refer to each other by 1-based index.
%   f(NameCodes, Kids) | l(H,T) | s(Codes,T) | a(Codes) | i(Int) | v | r(J)
c24_eqs([], _).
c24_eqs([I-Nd|Es], Arr) :- arg(I, Arr, V), c24_eq(Nd, V, Arr), c24_eqs(Es, Arr).

c24_eq(f(Cs, Kids), V, Arr) :- atom_codes(Nm, Cs), c24_kids(Kids, Arr, Ks), T =.. [Nm|Ks], V = T.
c24_eq(l(H, T), V, Arr) :- arg(H, Arr, VH), arg(T, Arr, VT), V = [VH|VT].
c24_eq(s(Cs, T), V, Arr) :- vp_codes_chars(Cs, Chs), arg(T, Arr, VT), partial_string(Chs, S, VT), V = S.
c24_eq(a(Cs), V, _) :- atom_codes(V0, Cs), V = V0.
c24_eq(i(I), V, _) :- V = I.
c24_eq(v, _, _).
c24_eq(r(J), V, Arr) :- arg(J, Arr, VJ), V = VJ.

c24_kids([], _, []).
c24_kids([K|Ks], Arr, [V|Vs]) :- arg(K, Arr, V), c24_kids(Ks, Arr, Vs).

% c24_steps(+Eqs, +N, +RA, +RB, +Layout, +TextCodes, +K, +Ops, -R): first solution R = 0 (baseline, everything
% built), then for every operation two solutions: R = 0 again (the operation has run; the heap
% below the baseline top must be what it was) and R = res(Op, Result).
% Layout 0: the roots as built by the equations (arguments are reference chains);
% Layout 1: a copy_term/2 copy of both roots (parents before children, direct cells);
% Layout 2: the graph is read from text (reader layout): r(t(A,B), [Var-Path, ...]) where a node
%           is written inline at its first occurrence and as a variable afterwards; the variable
%           is then bound to the subterm found by following Path (argument positions) from t(A,B).
c24_steps(Eqs, N, RA, RB, Layout, Text, K, Ops, R) :-
    (   Layout =:= 2 ->
        vp_codes_chars(Text, Chars),
        read_from_chars(Chars, r(T, Binds)),
        c24_close(Binds, T),
        T = t(A, B)
    ;   functor(Arr, v, N),
        c24_eqs(Eqs, Arr),
        arg(RA, Arr, A0), arg(RB, Arr, B0),
        (   Layout =:= 1 -> copy_term(t(A0, B0), t(A, B)) ; A = A0, B = B0 )
    ),
    c24_step(A, B, K, Ops, R).

c24_close([], _).
c24_close([V-Path|Bs], T) :- c24_path(Path, T, Sub), V = Sub, c24_close(Bs, T).

c24_path([], T, T).
c24_path([K|Ks], T, S) :- arg(K, T, X), c24_path(Ks, X, S).

c24_step(_, _, _, _, 0).
c24_step(A, B, K, Ops, R) :-
    c24_member(Op, Ops),
    c24_do(Op, A, B, K, Res),
    c24_out(Op, Res, R).

c24_out(_, _, 0).
c24_out(Op, Res, res(Op, Res)).

c24_member(X, [X|_]).
c24_member(X, [_|Xs]) :- c24_member(X, Xs).

c24_do(Op, A, B, K, Res) :-
    catch(c24_op(Op, A, B, K, Res0), E, c24_ex(E, Res0)),
    !,
    Res = Res0.
c24_do(_, _, _, _, failed).

c24_ex(E, ex(N)) :- ( nonvar(E), E = error(F, _), nonvar(F) -> functor(F, N, _) ; N = other ).

c24_yn(G, R) :- ( call(G) -> R = yes ; R = no ).

c24_op(noop, _, _, _, ok).
c24_op(unfold_a, A, _, K, Enc) :- rt_unfold(A, K, U), vp_enc(U, Enc).
c24_op(unfold_b, _, B, K, Enc) :- rt_unfold(B, K, U), vp_enc(U, Enc).
c24_op(acyclic_a, A, _, _, R) :- c24_yn(acyclic_term(A), R).
c24_op(acyclic_b, _, B, _, R) :- c24_yn(acyclic_term(B), R).
c24_op(ground_a, A, _, _, R) :- c24_yn(ground(A), R).
c24_op(ground_b, _, B, _, R) :- c24_yn(ground(B), R).
c24_op(tvars_a, A, _, K, Enc) :- term_variables(A, Vs), rt_unfold(t(A, Vs), K, U), vp_enc(U, Enc).
c24_op(tvars_b, _, B, K, Enc) :- term_variables(B, Vs), rt_unfold(t(B, Vs), K, U), vp_enc(U, Enc).
c24_op(eq, A, B, _, R) :- c24_yn(A == B, R).
c24_op(neq, A, B, _, R) :- c24_yn(A \== B, R).
c24_op(cmp, A, B, _, O) :- compare(O, A, B).
c24_op(cmp_swap, A, B, _, O) :- compare(O, B, A).
c24_op(lt, A, B, _, R) :- c24_yn(A @< B, R).
c24_op(copy, A, B, K, Enc) :- copy_term(t(A, B), C), rt_unfold(p(t(A, B), C), K, U), vp_enc(U, Enc).
c24_op(unify, A, B, K, Res) :-
    (   A = B ->
        c24_yn(A == B, E),
        rt_unfold(t(A, B), K, U), vp_enc(U, Enc),
        Res = yes(E, Enc)
    ;   Res = no
    ).
c24_op(uwoc, A, B, _, R) :- c24_yn(unify_with_occurs_check(A, B), R).
