% C51 helpers: library(csv) calls, reified.
c51_parse(Cs, Opts, Default, R) :-
    (   Default == true -> G = parse_csv(F)
    ;   G = parse_csv(F, Opts)
    ),
    catch(( phrase(G, Cs) -> R = ok(F) ; R = failed ), E, R = ex(E)).

c51_write(File, Frame, Opts, Default, R) :-
    (   Default == true -> G = write_csv(File, Frame)
    ;   G = write_csv(File, Frame, Opts)
    ),
    catch(( call(G) -> R = ok ; R = failed ), E, R = ex(E)).
