% C13 helpers: every comparison builtin on a pair / triple, reified into a small ground term.

c13_b(G, B) :- ( call(G) -> B = 1 ; B = 0 ).

% r(Oab, Oba, [@<, @=<, @>, @>=, ==, \==], [compare(<), compare(=), compare(>)])
c13_cmp2(A, B, r(O1, O2, [L, LE, G, GE, E, NE], [CL, CE, CG])) :-
    compare(O1, A, B),
    compare(O2, B, A),
    ( A @< B -> L = 1 ; L = 0 ),
    ( A @=< B -> LE = 1 ; LE = 0 ),
    ( A @> B -> G = 1 ; G = 0 ),
    ( A @>= B -> GE = 1 ; GE = 0 ),
    ( A == B -> E = 1 ; E = 0 ),
    ( A \== B -> NE = 1 ; NE = 0 ),
    ( compare(<, A, B) -> CL = 1 ; CL = 0 ),
    ( compare(=, A, B) -> CE = 1 ; CE = 0 ),
    ( compare(>, A, B) -> CG = 1 ; CG = 0 ).

c13_pair_spec(Specs, Res) :-
    tb_builds(Specs, [A, B]),
    c13_cmp2(A, B, Res).

c13_pair_text(Codes, Res) :-
    vp_codes_chars(Codes, Chars),
    read_from_chars(Chars, t(A, B)),
    c13_cmp2(A, B, Res).

c13_cmp3(A, B, C, r(Oab, Oba, Oac, Oca, Obc, Ocb)) :-
    compare(Oab, A, B), compare(Oba, B, A),
    compare(Oac, A, C), compare(Oca, C, A),
    compare(Obc, B, C), compare(Ocb, C, B).

c13_triple_spec(Specs, Res) :-
    tb_builds(Specs, [A, B, C]),
    c13_cmp3(A, B, C, Res).

c13_triple_text(Codes, Res) :-
    vp_codes_chars(Codes, Chars),
    read_from_chars(Chars, t(A, B, C)),
    c13_cmp3(A, B, C, Res).
