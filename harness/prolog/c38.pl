% Effect handlers over reset/3, shift/1 for C38 (mirrored by harness/src/shared/effref.rs).

:- dynamic(c38_tr/1).

c38_emit(T) :- assertz(c38_tr(T)).

c38_drive(G) :- reset(G, B, C), c38_drive_(C, B).
c38_drive_(none, _) :- c38_emit(done).
c38_drive_(cont(K), B) :- c38_emit(ball(B)), c38_drive(K).

c38_state(G, S) :- reset(G, B, C), c38_state_(C, B, S).
c38_state_(none, _, S) :- c38_emit(final(S)).
c38_state_(cont(K), B, S) :- c38_step(B, K, S).
c38_step(get(X), K, S) :- !, X = S, c38_state(K, S).
c38_step(put(S1), K, _) :- !, c38_state(K, S1).
c38_step(B, K, S) :- shift(B), c38_state(K, S).

c38_first(G) :- reset(G, B, C), c38_first_(C, B).
c38_first_(none, _) :- c38_emit(done).
c38_first_(cont(_), B) :- c38_emit(first(B)).

c38_twice(G) :- reset(G, B, C), c38_twice_(C, B).
c38_twice_(none, _) :- c38_emit(done).
c38_twice_(cont(K), B) :- c38_emit(ball(B)), c38_drive(K), c38_emit(again), c38_drive(K).

c38_once(G) :- reset(G, B, C), c38_once_(C, B).
c38_once_(none, _) :- c38_emit(done).
c38_once_(cont(K), B) :- c38_emit(ball(B)), call(K).

% run the query, collect answers and the trace
c38_run(G, A, As-Ts) :-
    retractall(c38_tr(_)),
    findall(A, G, As),
    findall(T, c38_tr(T), Ts).
