% C42 helper (consulted into user): run a list of g(Goal, Template) items in order and reify each
% outcome as ok(Instances) or ex(Formal) / ball(Ball).

c42_all([], []).
c42_all([g(G, T)|Gs], [R|Rs]) :-
    catch(( findall(T, G, L), R = ok(L) ),
          Ball,
          (   nonvar(Ball), Ball = error(F, _) -> R = ex(F) ; R = ball(Ball) )),
    c42_all(Gs, Rs).
