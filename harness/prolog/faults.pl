% Workloads for the fault-injection properties C30 (allocation failure) and C31 (interrupt).
% Every workload vf_w(Name, R) is deterministic, terminates, and binds R to a small ground
% term that is fixed by construction (the expected value is tabulated in src/shared/faultlib.rs).

:- use_module(library(lists)).
:- use_module(library(between)).
:- use_module(library(iso_ext)).
:- use_module(library(charsio)).
:- use_module(library(dcgs)).
:- use_module(library(format)).
:- use_module(library(pairs)).
:- use_module(library(assoc)).
:- use_module(library(freeze)).
:- use_module(library(dif)).

:- dynamic(vf_fact/1).
:- dynamic(vf_cnt/1).
:- dynamic(vf_log/1).

vf_loaded(faults).

% ---------------------------------------------------------------------------
% heap pre-fill: N list cells + a structure of arity K (fine adjustment)
vf_fill(N, K) :- length(_, N), functor(_, f, K).

% C30 entry: fill, then the workload under catch/3. The mark tells the harness whether
% the catch/3 frame was already active when an error surfaced at the top.
vf_run(N, K, W, R) :-
    vf_fill(N, K),
    catch(( bb_put(vf_mark, in), vf_w(W, R0), R = R0 ),
          error(resource_error(memory), _),
          R = caught).

% the same without the catch (what does the top level see?)
vf_run_nocatch(N, K, W, R) :-
    vf_fill(N, K),
    vf_w(W, R).

vf_mark_reset :- bb_put(vf_mark, out).
vf_mark(M) :- bb_get(vf_mark, M).

% C31 entry: a prelude of S skip iterations (phase shift), then the workload under catch/3
% with a catch-all; the ball is reported as caught(Ball).
vf_irun(Kind, S, W, R) :-
    vf_skip(Kind, S),
    catch(( bb_put(vf_mark, in), vf_w(W, R0), R = R0, bb_put(vf_mark, done) ),
          Ball,
          R = caught(Ball)).

vf_skip(a, N) :- vf_skip_a(N).
vf_skip(b, N) :- vf_skip_b(N, x).
vf_skip(c, N) :- vf_skip_c(N, x, y).

vf_skip_a(0) :- !.
vf_skip_a(N) :- N1 is N - 1, vf_skip_a(N1).

vf_skip_b(0, _) :- !.
vf_skip_b(N, A) :- N1 is N - 1, vf_nop, vf_skip_b(N1, A).

vf_skip_c(0, _, _) :- !.
vf_skip_c(N, A, B) :- N1 is N - 1, vf_nop2(A), vf_skip_c(N1, A, B).

vf_nop.
vf_nop2(_).

% cleanup of everything a workload may leave behind
vf_log_state(L) :- findall(X, vf_log(X), L).

vf_cleanup :-
    retractall(vf_fact(_)),
    retractall(vf_cnt(_)),
    retractall(vf_log(_)).

% ---------------------------------------------------------------------------
% helpers

vf_deep(0, z) :- !.
vf_deep(N, s(T)) :- N1 is N - 1, vf_deep(N1, T).

vf_depth(z, D, D) :- !.
vf_depth(s(T), D0, D) :- D1 is D0 + 1, vf_depth(T, D1, D).

vf_tree(0, l(_)) :- !.
vf_tree(N, n(L, _, R)) :- N1 is N - 1, vf_tree(N1, L), vf_tree(N1, R).

vf_count_leaves(l(_), 1).
vf_count_leaves(n(L, _, R), N) :- vf_count_leaves(L, A), vf_count_leaves(R, B), N is A + B.

vf_rep(0, _, []) :- !.
vf_rep(N, X, [X|Xs]) :- N1 is N - 1, vf_rep(N1, X, Xs).

vf_down(0, []) :- !.
vf_down(N, [N|Ns]) :- N1 is N - 1, vf_down(N1, Ns).

vf_keyed([], []).
vf_keyed([X|Xs], [K-X|Ps]) :- K is X mod 7, vf_keyed(Xs, Ps).

vf_list_text(N, Cs) :-
    numlist(1, N, L),
    phrase(vf_items(L), Cs0),
    append("[0", Cs0, Cs1),
    append(Cs1, "].", Cs).

vf_items([]) --> [].
vf_items([X|Xs]) --> { number_chars(X, Ds) }, ",", seq(Ds), vf_items(Xs).

vf_freeze_all([], _).
vf_freeze_all([V|Vs], Acc) :- freeze(V, vf_bump(Acc)), vf_freeze_all(Vs, Acc).

vf_bump(_).

vf_sum([], S, S).
vf_sum([X|Xs], S0, S) :- S1 is S0 + X, vf_sum(Xs, S1, S).

vf_assert_n(0) :- !.
vf_assert_n(N) :- assertz(vf_fact(N)), N1 is N - 1, vf_assert_n(N1).

vf_digits --> [].
vf_digits --> [D], { char_type(D, decimal_digit) }, vf_digits.

% ---------------------------------------------------------------------------
% workloads

vf_w(nop, ok).

vf_w(build_deep, ok(D)) :-
    vf_deep(1500, T), vf_depth(T, 0, D).

vf_w(build_list, ok(S)) :-
    numlist(1, 1500, L), vf_sum(L, 0, S).

vf_w(copy_term, ok(Nv, Nl)) :-
    vf_tree(8, T), copy_term(T, C),
    term_variables(C, Vs), length(Vs, Nv),
    vf_count_leaves(C, Nl).

vf_w(findall, ok(Len, S)) :-
    findall(X-Y, (between(1, 40, X), between(1, 30, Y)), L),
    length(L, Len),
    findall(X, member(X-1, L), Xs), vf_sum(Xs, 0, S).

vf_w(assertz, ok(Len, C)) :-
    numlist(1, 800, L),
    assertz(vf_fact(big(L, "a string of some length", f(_X, _Y)))),
    vf_fact(big(L2, _, _)), length(L2, Len),
    retract(vf_fact(big(_, _, _))),
    findall(x, vf_fact(_), Xs), length(Xs, C).

vf_w(atom_chars, ok(Len, L2)) :-
    vf_rep(1200, a, Cs), atom_chars(A, Cs), atom_length(A, Len),
    atom_chars(A, Cs2), length(Cs2, L2).

vf_w(string_append, ok(Len, C)) :-
    S = "abcdefghijklmnopqrstuvwxyz0123456789ABCD",
    append(S, S, S2), append(S2, S2, S3), append(S3, S3, S4), append(S4, S4, S5),
    append(S5, [x|S5], S6), length(S6, Len), nth0(640, S6, C).

vf_w(bignum, ok(Len, Ok)) :-
    X is 3 ^ 4000, number_codes(X, Cs), length(Cs, Len),
    number_codes(Y, Cs), ( X =:= Y -> Ok = same ; Ok = differ ).

vf_w(read_term, ok(Len, Last)) :-
    vf_list_text(400, Cs), read_from_chars(Cs, T),
    length(T, Len), vf_last(T, Last).

vf_w(sort, ok(F1, F2, Len, K)) :-
    vf_down(1200, L), sort(L, [F1|_]),
    append(L, L, LL), sort(LL, S2), length(S2, F2),
    vf_keyed(L, Ps), keysort(Ps, Qs), length(Qs, Len), Qs = [K-_|_].

vf_w(length, ok(N)) :-
    length(L, 3000), length(L, N).

vf_w(format, ok(Len, Ok)) :-
    numlist(1, 300, L),
    phrase(format_("~w ~a ~d ~q~n", [L, abc, 12345, 'A b']), Cs),
    length(Cs, Len),
    ( append(_, "12345 'A b'\n", Cs) -> Ok = tail ; Ok = notail ).

vf_w(big_ball, ok(Len)) :-
    numlist(1, 1000, L),
    catch(throw(ball(L, "text", f(_))), ball(L2, _, _), length(L2, Len)).

vf_w(bagof, ok(N, M)) :-
    numlist(1, 300, L),
    bagof(K-Vs, bagof(X, (member(X, L), K is X mod 5), Vs), KVs), length(KVs, N),
    setof(Y, X^(member(X, L), Y is X mod 11), Ys), length(Ys, M).

% ---- further workloads (thorough tier, and C31) ----

vf_w(univ, ok(N, A)) :-
    functor(T, f, 250), T =.. L, length(L, N),
    T2 =.. [g|L], functor(T2, _, A).

vf_w(term_variables, ok(N)) :-
    vf_tree(8, T), term_variables(T, Vs), length(Vs, N).

vf_w(sub_atom, ok(N, M)) :-
    findall(S, sub_atom(abcdefghijklmnopqrst, _, _, _, S), L), length(L, N),
    findall(B, atom_concat(B, _, abcdefghijklmnopqrstuvwxyz), Bs), length(Bs, M).

vf_w(freeze, ok(N)) :-
    length(Vs, 60), vf_freeze_all(Vs, acc), maplist(=(1), Vs),
    length(Vs, N).

vf_w(dif, ok(R)) :-
    length(Vs, 100), vf_rep(100, a, As),
    dif(Vs, As),
    ( Vs = As -> R = unified ; R = refused ).

vf_w(copy_attr, ok(N)) :-
    length(Vs, 100), vf_freeze_all(Vs, acc),
    copy_term(Vs, _, Gs), length(Gs, N).

vf_w(phrase, ok(N)) :-
    vf_rep(1500, '7', Cs), once(phrase(vf_digits, Cs)), length(Cs, N).

vf_w(assoc, ok(V, N)) :-
    numlist(1, 300, L), pairs_keys_values(Ps, L, L),
    list_to_assoc(Ps, A), get_assoc(150, A, V),
    assoc_to_keys(A, Ks), length(Ks, N).

vf_w(foldl, ok(S)) :-
    numlist(1, 1000, L), foldl(vf_plus, L, 0, S).

vf_w(atom_codes_many, ok(N, A)) :-
    findall(At, (between(1, 300, I), number_codes(I, Cs), atom_codes(At, [0'v|Cs])), As),
    length(As, N), vf_last(As, A).

vf_w(assert_retract, ok(N, M)) :-
    vf_assert_n(200),
    findall(X, vf_fact(X), Xs), length(Xs, N),
    retractall(vf_fact(_)),
    findall(X, vf_fact(X), Ys), length(Ys, M).

vf_w(nested_findall, ok(N)) :-
    findall(L, (between(1, 30, I), findall(I-J, between(1, 30, J), L)), Ls),
    append(Ls, All), length(All, N).

vf_w(reverse, ok(F)) :-
    numlist(1, 2000, L), reverse(L, [F|_]).

vf_w(big_strings, ok(N, C)) :-
    vf_rep(300, "0123456789", Ss), append(Ss, S), length(S, N),
    atom_chars(A, S), atom_length(A, N), nth0(2999, S, C).

vf_w(string_sort, ok(N, F)) :-
    findall(S, (between(1, 200, I), J is 1000 - I, number_chars(J, S)), Ss),
    sort(Ss, Sorted), length(Sorted, N), Sorted = [F0|_], atom_chars(F, F0).

vf_w(number_vars, ok(N)) :-
    vf_tree(7, T), copy_term(T, C), term_variables(C, Vs), vf_numvars(Vs, 0, N).

vf_w(partial_string, ok(N)) :-
    partial_string("abcdefghijklmnopqrstuvwxyz", L, T), T = "0123456789",
    append(L, L, L2), append(L2, L2, L3), append(L3, L3, L4), append(L4, L4, L5),
    append(L5, L5, L6), length(L6, N).

vf_w(error_context, ok(E)) :-
    numlist(1, 500, L),
    catch(atom_length(L, _), error(type_error(T, _), _), E = T).

vf_w(write_chars, ok(N)) :-
    vf_deep(300, T), phrase(format_("~q", [T]), Cs), length(Cs, N).

vf_w(setof_strings, ok(N)) :-
    setof(K-S, I^(between(1, 100, I), K is I mod 10, number_chars(I, S)), L), length(L, N).

vf_w(call_n, ok(S)) :-
    numlist(1, 500, L), maplist(vf_add(3), L, M), sum_list(M, S).

vf_w(inference_limit, ok(R, S)) :-
    call_with_inference_limit((numlist(1, 500, L), sum_list(L, S)), 1000000, R).

vf_w(cleanup, ok(S, Log)) :-
    setup_call_cleanup(assertz(vf_log(setup)),
                       (numlist(1, 800, L), vf_sum(L, 0, S)),
                       assertz(vf_log(cleanup))),
    findall(X, vf_log(X), Log0), length(Log0, Log),
    retractall(vf_log(_)).

% ---- C31-only workloads: backtracking heavy, exceptions, long deterministic recursion ----

vf_w(fail_loop, ok(C)) :-
    retractall(vf_cnt(_)), assertz(vf_cnt(0)),
    (   between(1, 150, _),
        retract(vf_cnt(C0)), C1 is C0 + 1, assertz(vf_cnt(C1)),
        fail
    ;   true
    ),
    retract(vf_cnt(C)).

vf_w(between_fail, ok(N)) :-
    findall(X, (between(1, 60, X), between(1, 20, Y), Y > 19), L), length(L, N).

vf_w(exceptions, ok(N)) :-
    findall(B, (between(1, 100, I), catch(vf_thrower(I), oops(B), true)), L), length(L, N).

vf_w(count_loop, ok(N)) :-
    vf_count(3000, 0, N).

vf_w(naive_reverse, ok(F)) :-
    numlist(1, 60, L), vf_nrev(L, [F|_]).

vf_thrower(I) :- ( I mod 2 =:= 0 -> throw(oops(I)) ; throw(oops(odd)) ).

vf_count(0, N, N) :- !.
vf_count(K, N0, N) :- K1 is K - 1, N1 is N0 + 1, vf_count(K1, N1, N).

vf_nrev([], []).
vf_nrev([X|Xs], R) :- vf_nrev(Xs, R0), append(R0, [X], R).

vf_last([X], X) :- !.
vf_last([_|Xs], X) :- vf_last(Xs, X).

vf_numvars([], N, N).
vf_numvars(['$VAR'(N0)|Vs], N0, N) :- N1 is N0 + 1, vf_numvars(Vs, N1, N).

vf_plus(X, A0, A) :- A is A0 + X.
vf_add(K, X, Y) :- Y is X + K.

% ---------------------------------------------------------------------------
% follow-up battery: vf_battery(-R) gives a fixed ground term on a healthy machine

vf_battery(r(A, B, C, D, E, F, G, H)) :-
    A is 2 + 3 * 4,
    atom_length(abcdef, B),
    findall(X, member(X, [1, b, c]), C),
    catch(throw(x(1)), x(D), true),
    length(L, 3), L = [p|_], copy_term(f(V, W, V), f(E0, _, E1)), ( E0 == E1, var(W) -> E = shared ; E = broken ),
    atom_chars(At, "xyz"), atom_concat(At, At, F),
    assertz(vf_fact(battery)), retract(vf_fact(battery)), \+ vf_fact(battery), G = db,
    catch(call_with_inference_limit(vf_count(10, 0, H0), 10000, _), _, H0 = err), H = H0.
