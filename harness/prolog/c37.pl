% C37 helpers: library(crypto) / library(charsio) calls, reified.
c37_hash(Data, Opts, R) :-
    catch(( crypto_data_hash(Data, H, Opts) -> R = ok(H) ; R = failed ), E, R = ex(E)).

% with the hash given (verification mode)
c37_verify(Data, Hash, Opts, R) :-
    catch(( crypto_data_hash(Data, Hash, Opts) -> R = ok ; R = failed ), E, R = ex(E)).

c37_hex(Bytes, HexIn, r(R1, R2)) :-
    catch(( hex_bytes(H, Bytes) -> R1 = ok(H) ; R1 = failed ), E1, R1 = ex(E1)),
    catch(( hex_bytes(HexIn, Bs) -> R2 = ok(Bs) ; R2 = failed ), E2, R2 = ex(E2)).

c37_b64(Cs, B64In, Opts, r(R1, R2)) :-
    catch(( chars_base64(Cs, B, Opts) -> R1 = ok(B) ; R1 = failed ), E1, R1 = ex(E1)),
    catch(( chars_base64(Ds, B64In, Opts) -> maplist(char_code, Ds, Codes), R2 = ok(Codes) ; R2 = failed ), E2, R2 = ex(E2)).

c37_utf8(Cs, BytesIn, r(R1, R2)) :-
    catch(( chars_utf8bytes(Cs, Bs) -> R1 = ok(Bs) ; R1 = failed ), E1, R1 = ex(E1)),
    catch(( chars_utf8bytes(Ds, BytesIn) -> R2 = ok(Ds) ; R2 = failed ), E2, R2 = ex(E2)).

% encrypt, decrypt, decrypt a tampered variant
%   Tamper = t(What, Index), What in ct/tag/key/iv/aad
c37_enc(Plain, Key, IV, Opts, t(What, Idx), r(RE, RD, RT)) :-
    Alg = 'chacha20-poly1305',
    catch(( crypto_data_encrypt(Plain, Alg, Key, IV, CT, [tag(Tag)|Opts]) ->
            maplist(char_code, CT, CTCodes), RE = ok(CTCodes, Tag)
          ; RE = failed ), E1, RE = ex(E1)),
    (   RE = ok(_, _) ->
        catch(( crypto_data_decrypt(CT, Alg, Key, IV, P2, [tag(Tag)|Opts]) -> RD = ok(P2) ; RD = failed ), E2, RD = ex(E2)),
        c37_tamper(What, Idx, CT, Tag, Key, IV, Opts, CT1, Tag1, Key1, IV1, Opts1, Done),
        (   Done == true ->
            catch(( crypto_data_decrypt(CT1, Alg, Key1, IV1, P3, [tag(Tag1)|Opts1]) -> RT = ok(P3) ; RT = failed ), E3, RT = ex(E3))
        ;   RT = none
        )
    ;   RD = none, RT = none
    ).

c37_flip_byte(Idx, Bs0, Bs) :-
    length(Bs0, L), L > 0,
    I is Idx mod L,
    nth0(I, Bs0, B0),
    B is xor(B0, 1),
    c37_replace(I, Bs0, B, Bs).

c37_replace(0, [_|Xs], Y, [Y|Xs]) :- !.
c37_replace(I, [X|Xs], Y, [X|Ys]) :- I1 is I - 1, c37_replace(I1, Xs, Y, Ys).

c37_tamper(ct, Idx, CT, Tag, Key, IV, Opts, CT1, Tag, Key, IV, Opts, Done) :-
    (   CT == [] -> Done = false, CT1 = CT
    ;   maplist(char_code, CT, Cs0), c37_flip_byte(Idx, Cs0, Cs1), maplist(char_code, CT1, Cs1), Done = true
    ).
c37_tamper(tag, Idx, CT, Tag, Key, IV, Opts, CT, Tag1, Key, IV, Opts, true) :- c37_flip_byte(Idx, Tag, Tag1).
c37_tamper(key, Idx, CT, Tag, Key, IV, Opts, CT, Tag, Key1, IV, Opts, true) :- c37_flip_byte(Idx, Key, Key1).
c37_tamper(iv, Idx, CT, Tag, Key, IV, Opts, CT, Tag, Key, IV1, Opts, true) :- c37_flip_byte(Idx, IV, IV1).
c37_tamper(aad, _, CT, Tag, Key, IV, Opts, CT, Tag, Key, IV, Opts1, true) :-
    (   select(aad(A), Opts, Rest) -> Opts1 = [aad([x|A])|Rest]
    ;   Opts1 = [aad("x")|Opts]
    ).
