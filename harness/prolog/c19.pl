% C19 helpers: interpreters for write scripts and read scripts over one stream. Every step is
% reified: v(Value) | failed | ex(Ball) with the stream term replaced by the atom '$s' (the
% transport encoding cannot carry a stream handle).

c19_clean(T, S, C) :-
    (   T == S -> C = '$s'
    ;   var(T) -> C = T
    ;   atomic(T) -> C = T
    ;   T =.. [F|As],
        c19_clean_list(As, S, Cs),
        C =.. [F|Cs]
    ).

c19_clean_list([], _, []).
c19_clean_list([A|As], S, [C|Cs]) :- c19_clean(A, S, C), c19_clean_list(As, S, Cs).

c19_step(G, S, R) :-
    catch(( call(G, R0) -> R = v(R0) ; R = failed ), E, ( c19_clean(E, S, EC), R = ex(EC) )).

% ---- write phase ---------------------------------------------------------------------------
c19_write_file(Path, Opts, Ops, Rs) :-
    open(Path, write, S, Opts),
    c19_wrun(Ops, S, Rs),
    close(S).

c19_append_file(Path, Opts, Ops, Rs) :-
    open(Path, append, S, Opts),
    c19_wrun(Ops, S, Rs),
    close(S).

c19_wrun([], _, []).
c19_wrun([Op|Ops], S, [R|Rs]) :-
    c19_step(c19_wop(Op, S), S, R),
    c19_wrun(Ops, S, Rs).

c19_wop(pc(N), S, ok) :- char_code(C, N), put_char(S, C).
c19_wop(pcode(N), S, ok) :- put_code(S, N).
c19_wop(pbyte(N), S, ok) :- put_byte(S, N).
c19_wop(nl, S, ok) :- nl(S).
c19_wop(w(T), S, ok) :- write(S, T).
c19_wop(wq(T), S, ok) :- writeq(S, T).
c19_wop(wc(T), S, ok) :- write_canonical(S, T).
c19_wop(fmt(Codes, Args), S, ok) :- c19_codes_chars(Codes, Cs), format(S, Cs, Args).
c19_wop(flush, S, ok) :- flush_output(S).
c19_wop(pos, S, P) :- stream_property(S, position(P)).
c19_wop(eos, S, E) :- stream_property(S, end_of_stream(E)).

c19_codes_chars([], []).
c19_codes_chars([N|Ns], [C|Cs]) :- char_code(C, N), c19_codes_chars(Ns, Cs).

% ---- read phase ----------------------------------------------------------------------------
c19_read_file(Path, Opts, Ops, Rs) :-
    open(Path, read, S, Opts),
    c19_rrun(Ops, S, [], Rs),
    close(S).

% Saved: list of K-Position pairs
c19_rrun([], _, _, []).
c19_rrun([Op|Ops], S, Saved0, [R|Rs]) :-
    (   Op = save(K) ->
        c19_step(c19_pos(S), S, R),
        (   R = v(P) -> Saved = [K-P|Saved0] ; Saved = Saved0 )
    ;   Op = restore(K) ->
        Saved = Saved0,
        (   c19_lookup(Saved0, K, P) -> c19_step(c19_setpos(S, P), S, R) ; R = nosave )
    ;   Saved = Saved0,
        c19_step(c19_rop(Op, S), S, R)
    ),
    c19_rrun(Ops, S, Saved, Rs).

c19_lookup([K0-P0|Rest], K, P) :- ( K0 == K -> P = P0 ; c19_lookup(Rest, K, P) ).

c19_pos(S, P) :- stream_property(S, position(P)).
c19_setpos(S, P, P) :- set_stream_position(S, P).

c19_rop(gc, S, C) :- get_char(S, C).
c19_rop(pc, S, C) :- peek_char(S, C).
c19_rop(gcode, S, C) :- get_code(S, C).
c19_rop(pcode, S, C) :- peek_code(S, C).
c19_rop(gb, S, B) :- get_byte(S, B).
c19_rop(pb, S, B) :- peek_byte(S, B).
c19_rop(gn(N), S, Cs) :- get_n_chars(S, N, Cs).
c19_rop(gall, S, N-Cs) :- get_n_chars(S, N, Cs).
c19_rop(gl, S, Cs) :- get_line_to_chars(S, Cs, []).
c19_rop(rt, S, T-P) :- read_term(S, T, []), stream_property(S, position(P)).
c19_rop(ae, S, B) :- ( at_end_of_stream(S) -> B = true ; B = false ).
c19_rop(pos, S, P) :- stream_property(S, position(P)).
c19_rop(eos, S, E) :- stream_property(S, end_of_stream(E)).
% a get_char whose argument is already bound
c19_rop(gc_is(N), S, B) :- char_code(C, N), ( get_char(S, C) -> B = true ; B = false ).
c19_rop(pc_is(N), S, B) :- char_code(C, N), ( peek_char(S, C) -> B = true ; B = false ).

% read script on the machine's user_input (an in-memory stream when the machine was built from a string)
c19_read_user(Ops, Rs) :-
    current_input(S),
    c19_rrun(Ops, S, [], Rs).
