% C50 helpers: the same read / write once through library(charsio), once through a file stream.
% User-defined operators so that a reader/writer using a fresh operator table is noticed.
:- op(700, xfx, ===>).
:- op(200, xfy, **>).
:- op(400, yfx, <+>).
:- op(150, fy, neg).
:- op(150, yf, post).
:- op(1150, fx, decl).

% skip up to N terms (stops early at end_of_file); syntax errors count as one skipped read
c50_skip(_, 0) :- !.
c50_skip(S, N) :-
    catch(read_term(S, T, []), error(_, _), T = '$c50_err'),
    (   T == end_of_file -> true
    ;   N1 is N - 1, c50_skip(S, N1)
    ).

% Via: rt = read_term/3 vs read_term_from_chars/3 ; r = read/2 vs read_from_chars/2
c50_rs(rt, S, T, Opts) :- read_term(S, T, Opts).
c50_rs(r, S, T, _) :- read(S, T).

c50_rc(rt, Cs, T, Opts) :- read_term_from_chars(Cs, T, Opts).
c50_rc(r, Cs, T, _) :- read_from_chars(Cs, T).

% stream side: K reads are skipped, then one read is reified
c50_read_stream(Path, K, Via, T, Opts, R) :-
    open(Path, read, S),
    c50_skip(S, K),
    catch(( c50_rs(Via, S, T, Opts) -> R = ok ; R = failed ), E, R = ex(E)),
    close(S).

% chars side, K = 0: the chars are given
c50_read_chars0(Cs, Via, T, Opts, R) :-
    catch(( c50_rc(Via, Cs, T, Opts) -> R = ok ; R = failed ), E, R = ex(E)).

% chars side, K > 0: the chars are what a second stream has left after K reads
c50_read_charsk(Path, K, Via, T, Opts, R) :-
    open(Path, read, S),
    c50_skip(S, K),
    get_n_chars(S, _, Cs),
    close(S),
    c50_read_chars0(Cs, Via, T, Opts, R).

c50_write_stream(Path, T, Opts, R) :-
    open(Path, write, S),
    catch(( write_term(S, T, Opts) -> R = ok ; R = failed ), E, R = ex(E)),
    close(S).

c50_write_chars(T, Opts, Cs, R) :-
    catch(( write_term_to_chars(T, Opts, Cs) -> R = ok ; R = failed ), E, R = ex(E)).

% run Goal (which reifies its own exceptions) under a double_quotes flag value, restore the default
c50_with_dq(Flag, Goal) :-
    set_prolog_flag(double_quotes, Flag),
    catch(( call(Goal) -> R = true ; R = fail ), E, R = ex(E)),
    set_prolog_flag(double_quotes, chars),
    (   R = ex(E) -> throw(E) ; R == true ).

% ---------------------------------------------------------------------------------------------
% Whole cases: every raw term stays inside these predicates; only vp_enc/2's ground encoding is
% handed to the query (run_query converts the bindings of all query variables to the public Term
% type, which panics on some shapes).

c50_tail(0, []).
c50_tail(1, _).
c50_tail(2, foo).

% c50_mk_ropts(+Specs, +Tail, -Opts, -Outs)
c50_mk_ropts([], Tail, Opts, []) :- c50_tail(Tail, Opts).
c50_mk_ropts([S|Ss], Tail, [O|Os], Outs) :-
    c50_ropt(S, O, Outs, Outs1),
    c50_mk_ropts(Ss, Tail, Os, Outs1).

c50_ropt(vn, variable_names(V), [V|Os], Os).
c50_ropt(vars, variables(V), [V|Os], Os).
c50_ropt(sing, singletons(V), [V|Os], Os).
c50_ropt(nil(0), variable_names([]), Os, Os).
c50_ropt(nil(1), variables([]), Os, Os).
c50_ropt(nil(2), singletons([]), Os, Os).
c50_ropt(bad(K), O, Os, Os) :- c50_bad_ropt(K, O).

c50_bad_ropt(0, bogus).
c50_bad_ropt(1, variable_names).
c50_bad_ropt(2, quoted(true)).
c50_bad_ropt(3, _).
c50_bad_ropt(4, variables(_, _)).
c50_bad_ropt(5, 1).

c50_bind(0, _).
c50_bind(1, end_of_file).
c50_bind(2, a).

% c50_read_case(+Path, +TextCodes, +K, +Via, +Dq, +Bound, +Specs, +Tail, -Enc)
c50_read_case(Path, Codes, K, Via, Dq, Bound, Specs, Tail, Enc) :-
    c50_mk_ropts(Specs, Tail, O1, Outs1),
    c50_mk_ropts(Specs, Tail, O2, Outs2),
    c50_bind(Bound, T1),
    c50_bind(Bound, T2),
    c50_with_dq(Dq, ( c50_read_stream(Path, K, Via, T1, O1, R1),
                      (   K =:= 0 ->
                          vp_codes_chars(Codes, Cs),
                          c50_read_chars0(Cs, Via, T2, O2, R2)
                      ;   c50_read_charsk(Path, K, Via, T2, O2, R2)
                      ) )),
    vp_enc(side(R1, p(T1, Outs1))-side(R2, p(T2, Outs2)), Enc).

% write options: lit(Opt) ground option | vn(I) variable_names(I-th decoded list) | bad(K)
c50_mk_wopts([], Tail, _, Opts) :- c50_tail(Tail, Opts).
c50_mk_wopts([S|Ss], Tail, VNs, [O|Os]) :-
    c50_wopt(S, VNs, O),
    c50_mk_wopts(Ss, Tail, VNs, Os).

c50_wopt(lit(O), _, O).
c50_wopt(vn(I), VNs, variable_names(VN)) :- nth0(I, VNs, VN).
c50_wopt(bad(K), _, O) :- c50_bad_wopt(K, O).

c50_bad_wopt(0, bogus).
c50_bad_wopt(1, quoted(maybe)).
c50_bad_wopt(2, max_depth(-1)).
c50_bad_wopt(3, max_depth(a)).
c50_bad_wopt(4, variable_names([x])).
c50_bad_wopt(5, variable_names(_)).
c50_bad_wopt(6, _).
c50_bad_wopt(7, quoted(_)).
c50_bad_wopt(8, variable_names(['X'=_|_])).
c50_bad_wopt(9, ignore_ops(1)).
c50_bad_wopt(10, variables(_)).
c50_bad_wopt(11, double_quotes(codes)).
c50_bad_wopt(12, numbervars(_)).
c50_bad_wopt(13, variable_names([_=_])).
c50_bad_wopt(14, variable_names(foo)).

% c50_write_case(+Path, +Encs, +SpecsChars, +SpecsStream, +Tail, +Dq, -Enc)
% Encs: encodings of the term followed by the variable_names lists (shared variables)
c50_write_case(Path, Encs, SpecsC, SpecsS, Tail, Dq, Enc) :-
    vp_decs(Encs, [T|VNs]),
    c50_mk_wopts(SpecsC, Tail, VNs, OC),
    c50_mk_wopts(SpecsS, Tail, VNs, OS),
    c50_with_dq(Dq, ( c50_write_chars(T, OC, Cs, R2),
                      c50_write_stream(Path, T, OS, R1) )),
    vp_enc(r(R1, R2, Cs), Enc).
