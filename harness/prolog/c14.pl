% Helpers for C14 (consulted into module user by props/c14.rs).

% c14_ord(+Vars, -Os): compare/3 of every pair Vi,Vj (i<j), row by row.
c14_ord([], []).
c14_ord([V|Vs], Os) :- c14_ord1(Vs, V, Os, Os1), c14_ord(Vs, Os1).

c14_ord1([], _, Os, Os).
c14_ord1([W|Ws], V, [O|Os0], Os) :- compare(O, V, W), c14_ord1(Ws, V, Os0, Os).

% closures handed to the higher-order list predicates
c14_snoc(X, A0, [X|A0]).
c14_pair(X, Y, X-Y).
c14_t3(X, Y, Z, t(X,Y,Z)).
c14_zip3(X, Y, A0, [X-Y|A0]).
c14_zip4(X, Y, Z, A0, [t(X,Y,Z)|A0]).
c14_wrap(X, w(X)).

c14_sorts([], []).
c14_sorts([L|Ls], [S|Ss]) :- sort(L, S), c14_sorts(Ls, Ss).

% outcome of a goal that may raise: ok | failed | inst | ex(Formal); the instantiation_error atom is
% tested with ==/2 only (it is never handed to atom_codes/2 by the transport encoder)
c14_outcome(G, O) :-
    catch(( call(G) -> O = ok ; O = failed ), error(F, _), c14_formal(F, O)).

c14_formal(F, O) :- ( F == instantiation_error -> O = inst ; O = ex(F) ).

% ---------------------------------------------------------------------------------------------
% assoc histories: c14_assoc(+Ops, -Observations)
% every observation is o(Obs, Tree, IsAssoc, Pairs, Keys, Values) taken after the step

c14_assoc(Ops, Obs) :- empty_assoc(A0), c14_steps(Ops, A0, Obs).

c14_steps([], _, []).
c14_steps([Op|Ops], A0, [o(Ob, A1, Ok, L, Ks, Vs)|Obs]) :-
    c14_guard(Op, A0, A1, Ob),
    ( is_assoc(A1) -> Ok = true ; Ok = false ),
    assoc_to_list(A1, L),
    assoc_to_keys(A1, Ks),
    assoc_to_values(A1, Vs),
    c14_steps(Ops, A1, Obs).

c14_guard(Op, A0, A1, Ob) :-
    catch(c14_step(Op, A0, A1, Ob), error(F, _), ( A1 = A0, Ob = ex(F) )).

c14_step(put(K,V), A0, A1, ok) :- put_assoc(K, A0, V, A1).
c14_step(get(K), A0, A0, Ob) :- ( get_assoc(K, A0, V) -> Ob = yes(V) ; Ob = no ).
c14_step(del(K), A0, A1, Ob) :-
    ( del_assoc(K, A0, V, A) -> Ob = yes(V), A1 = A ; Ob = no, A1 = A0 ).
c14_step(del_min, A0, A1, Ob) :-
    (   empty_assoc(A0) -> Ob = empty, A1 = A0
    ;   del_min_assoc(A0, K, V, A) -> Ob = yes(K-V), A1 = A
    ;   Ob = no, A1 = A0
    ).
c14_step(del_max, A0, A1, Ob) :-
    (   empty_assoc(A0) -> Ob = empty, A1 = A0
    ;   del_max_assoc(A0, K, V, A) -> Ob = yes(K-V), A1 = A
    ;   Ob = no, A1 = A0
    ).
c14_step(max, A0, A0, Ob) :- ( max_assoc(A0, K, V) -> Ob = yes(K-V) ; Ob = no ).
c14_step(min, A0, A0, Ob) :- ( min_assoc(A0, K, V) -> Ob = yes(K-V) ; Ob = no ).
c14_step(from_list(L), _, A1, ok) :- list_to_assoc(L, A1).
c14_step(from_ord_list(L), _, A1, ok) :- ord_list_to_assoc(L, A1).
c14_step(gen, A0, A0, all(L)) :- findall(K-V, gen_assoc(K, A0, V), L).
c14_step(gen(K), A0, A0, all(L)) :- findall(V, gen_assoc(K, A0, V), L).
c14_step(upd(K,NV), A0, A1, Ob) :-
    ( get_assoc(K, A0, V0, A, NV) -> Ob = yes(V0), A1 = A ; Ob = no, A1 = A0 ).
c14_step(map, A0, A1, ok) :- map_assoc(c14_wrap, A0, A1).
c14_step(mapchk, A0, A0, Ob) :- ( map_assoc(integer, A0) -> Ob = yes ; Ob = no ).
