% Helpers for C21 (consulted into module user by props/c21.rs).

:- use_module(library(charsio)).

:- dynamic(c21k/2).
:- dynamic(c21a/2).

c21_tf(G, R) :- ( call(G) -> R = true ; R = false ).

% c21_obs(+A, +B, +N, -R): everything observed about the pair of atoms A, B (N: a number unique to the case)
c21_obs(A, B, N, r(Ty, Eq, Cmp, Ord, CsA, CsB, Len, Idx, BB, Fn, Srt, Cc)) :-
    c21_tf(atom(A), T1), c21_tf(atom(B), T2), c21_tf(atomic(A), T3), c21_tf(callable(B), T4),
    Ty = [T1,T2,T3,T4],
    c21_tf(A == B, E1), c21_tf(B == A, E2), c21_tf(A = B, E3), c21_tf(A \== B, E4), c21_tf(A \= B, E5),
    Eq = [E1,E2,E3,E4,E5],
    compare(C1, A, B), compare(C2, B, A),
    Cmp = C1/C2,
    c21_tf(A @< B, O1), c21_tf(A @=< B, O2), c21_tf(A @> B, O3), c21_tf(A @>= B, O4),
    Ord = [O1,O2,O3,O4],
    atom_codes(A, CsA), atom_codes(B, CsB),
    atom_length(A, LA), atom_length(B, LB), atom_chars(A, ChA), atom_chars(B, ChB), length(ChA, NA), length(ChB, NB),
    Len = [LA,LB,NA,NB],
    retractall(c21k(_, _)),
    assertz(c21k(zzz_other, 0)), assertz(c21k(A, 1)), assertz(c21k("str", 2)), assertz(c21k(f(A), 3)),
    assertz(c21k(B, 4)), assertz(c21k(7, 5)),
    findall(X, c21k(B, X), I1), findall(X, c21k(A, X), I2), findall(X, c21k(f(B), X), I3),
    retractall(c21k(_, _)),
    Idx = [I1,I2,I3],
    bb_put(A, N), ( bb_get(B, V), V == N -> BB = yes ; BB = no ),
    functor(TA, A, 2), functor(TB, B, 2), c21_tf(TA = TB, F1), functor(TA, NA2, _), c21_tf(NA2 == A, F2),
    TA =.. [NA3|_], c21_tf(NA3 == B, F3),
    Fn = [F1,F2,F3],
    sort([B, A, B], Srt0), length(Srt0, SL), msort_pair(A, B, KS),
    Srt = SL-KS,
    atom_concat(A, B, AB), atom_length(AB, LAB), atom_concat(X1, B, AB), c21_tf(X1 == A, G1),
    Cc = LAB-G1.

msort_pair(A, B, KS) :- keysort([A-1, B-2], L), L = [_-KS|_].
