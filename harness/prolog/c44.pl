% C44 driver: a whole history of flag reads/writes/probes runs inside one query (the text of
% the harness's own queries contains no double-quoted text, so it reads the same under every
% double_quotes value).

:- use_module(library(charsio)).
:- use_module(library(lists)).

c44_run(Encs, [e(E0)|Out]) :-
    c44_enum(E0),
    vp_decs(Encs, Items),
    c44_items(Items, Out).

c44_items([], []).
c44_items([I|Is], [R|Rs]) :- c44_item(I, R), c44_items(Is, Rs).

c44_enum(E) :-
    catch(( findall(F-V, current_prolog_flag(F, V), L), E = ok(L) ), B, E = ex(B)).

c44_get(F, V, O) :-
    catch(( findall(F-V, current_prolog_flag(F, V), L), O = ok(L) ), B, O = ex(B)).

c44_item(set(F, V), r(O, H, E)) :-
    catch(( set_prolog_flag(F, V) -> O = yes ; O = no ), B, O = ex(B)),
    (   atom(F), nonvar(V) -> c44_get(F, V, H) ; H = skipped ),
    c44_enum(E).
c44_item(get(F, V), r(O, E)) :-
    c44_get(F, V, O),
    c44_enum(E).
c44_item(probe(dq), r(O)) :-
    % the text  "ab" .
    c44_chars([34,97,98,34,32,46], Chars),
    catch(( read_from_chars(Chars, T) -> O = ok(T) ; O = no ), B, O = ex(B)).
c44_item(probe(oc), r(O)) :-
    % the cyclic binding is attempted twice: by an explicit =/2 and during head unification
    % (p(B,B) against p(X, f(X))); both must behave as the flag says
    c44_try(c44_cyclic, O1),
    c44_try(c44_cyclic_head, O2),
    c44_try(c44_cyclic_head2, O3),
    c44_try(c44_cyclic_head3, O4),
    (   c44_class(O1, C), c44_class(O2, C), c44_class(O3, C), c44_class(O4, C) -> O = O1
    ;   O = differ(O1, O2, O3, O4)
    ).
c44_item(probe(unk), r(O)) :-
    catch(( c44_undefined_predicate_zz(1) -> O = yes ; O = no ), B, O = ex(B)).

c44_cyclic :- X = f(X), nonvar(X).

c44_pp(B, B).
c44_cyclic_head :- c44_pp(X, f(X)), nonvar(X).

% the structure is in the clause head (get_structure / unify_value in write mode)
c44_ph(X, f(X)).
c44_cyclic_head2 :- c44_ph(B, B), nonvar(B).
c44_pl(X, [a, X]).
c44_cyclic_head3 :- c44_pl(C, C), nonvar(C).

c44_try(G, O) :- catch(( call(G) -> O = yes ; O = no ), B, O = ex(B)).

c44_class(yes, yes).
c44_class(no, no).
c44_class(ex(_), ex).

c44_chars([], []).
c44_chars([C|Cs], [Ch|Chs]) :- char_code(Ch, C), c44_chars(Cs, Chs).
