% C52 helpers: run a sequence of random-number calls and reify each outcome.

:- use_module(library(random)).

c52_seq([], []).
c52_seq([C|Cs], [R|Rs]) :- c52_call(C, R), c52_seq(Cs, Rs).

c52_call(r, O) :- ( random(X) -> O = f(X) ; O = none ).
c52_call(i(L, H), O) :- ( random_integer(L, H, X) -> O = i(X) ; O = none ).
c52_call(m, O) :- ( maybe -> O = yes ; O = no ).

% N outcomes of the same call
c52_draws(0, _, []) :- !.
c52_draws(N, C, [R|Rs]) :- c52_call(C, R), N1 is N - 1, c52_draws(N1, C, Rs).
