% Helpers of the C08 check (consulted into module user after support.pl).

% vpi_mi(+Goal, +Preds): vanilla meta-interpreter. The predicates listed in Preds (Name/Arity,
% dynamic) are resolved through clause/2, everything else is called directly. For cut-free
% programs only (a cut would be local to the clause/2 body call).
vpi_mi(G, _) :- var(G), !, throw(error(instantiation_error, vpi_mi/2)).
vpi_mi(true, _) :- !.
vpi_mi((A, B), Ps) :- !, vpi_mi(A, Ps), vpi_mi(B, Ps).
vpi_mi((C -> T ; E), Ps) :- !, ( vpi_mi(C, Ps) -> vpi_mi(T, Ps) ; vpi_mi(E, Ps) ).
vpi_mi((A ; B), Ps) :- !, ( vpi_mi(A, Ps) ; vpi_mi(B, Ps) ).
vpi_mi((C -> T), Ps) :- !, ( vpi_mi(C, Ps) -> vpi_mi(T, Ps) ).
vpi_mi(\+ G, Ps) :- !, \+ vpi_mi(G, Ps).
vpi_mi(call(G), Ps) :- !, vpi_mi(G, Ps).
vpi_mi(findall(T, G, L), Ps) :- !, findall(T, vpi_mi(G, Ps), L).
vpi_mi(catch(G, C, R), Ps) :- !, catch(vpi_mi(G, Ps), C, vpi_mi(R, Ps)).
vpi_mi(G, Ps) :-
    G =.. [call, F | Args], Args = [_|_], callable(F), !,
    F =.. L0, vpi_app(L0, Args, L1), G1 =.. L1,
    vpi_mi(G1, Ps).
vpi_mi(G, Ps) :-
    functor(G, N, A), vpi_memberchk(N/A, Ps), !,
    clause(G, B),
    vpi_mi(B, Ps).
vpi_mi(G, _) :- call(G).

vpi_app([], L, L).
vpi_app([H|T], L, [H|R]) :- vpi_app(T, L, R).

vpi_memberchk(X, [Y|Ys]) :- ( X == Y -> true ; vpi_memberchk(X, Ys) ).

% vpi_assert_all(+Clauses): assertz clause by clause
vpi_assert_all([]).
vpi_assert_all([C|Cs]) :- assertz(C), vpi_assert_all(Cs).
