% helpers of C03 (consulted into module user after support.pl); needs library(diag)

c03_arith_name(N) :-
    memberchk(N, [add,sub,mul,int_pow,pow,idiv,max,min,int_floor_div,rdiv,div,shl,shr,xor,and,or,
                  mod,rem,gcd,sign,cos,sin,tan,log,exp,acos,asin,atan,sqrt,abs,float,truncate,round,
                  ceiling,floor,float_fractional_part,float_integer_part,(-),(+),(\)]).

c03_is_arith(I) :-
    functor(I, N, A),
    ( A == 2 ; A == 3 ),
    c03_arith_name(N).

% yes when the compiled code of PI contains an arithmetic instruction
c03_compiled(PI, Flag) :-
    (   catch(wam_instructions(PI, Is), _, fail),
        member(I, Is),
        c03_is_arith(I)
    ->  Flag = yes
    ;   Flag = no
    ).

% c03_run(+Clause, +PI, +Head, ?Out, -R)
%   R = asserterr(Ball) | val(Flag, Out) | failed(Flag) | runerr(Flag, Ball)
c03_run(Clause, PI, Head, Out, R) :-
    catch(assertz(Clause), B, true),
    (   nonvar(B) -> R0 = asserterr(B)
    ;   c03_compiled(PI, Flag),
        catch(( call(Head) -> R0 = val(Flag, Out) ; R0 = failed(Flag) ), B2, R0 = runerr(Flag, B2))
    ),
    c03_fix(R0, R).

% c03_goal(+Goal, ?Out, -R): R = val(no, Out) | failed(no) | runerr(no, Ball)
c03_goal(Goal, Out, R) :-
    catch(( call(Goal) -> R0 = val(no, Out) ; R0 = failed(no) ), B, R0 = runerr(no, B)),
    c03_fix(R0, R).

% A rational with denominator 1 passes integer/1 but is not an integer object (integer
% division rejects it); the transport encoding cannot carry it, so it is replaced by a marker.
c03_fix(T0, T) :-
    (   var(T0) -> T = T0
    ;   integer(T0) ->
        (   catch(_ is T0 // 1, _, fail) -> T = T0
        ;   T1 is truncate(T0), T = '$integral_rational'(T1)
        )
    ;   atomic(T0) -> T = T0
    ;   T0 =.. [F|As], c03_fix_list(As, Bs), T =.. [F|Bs]
    ).

c03_fix_list([], []).
c03_fix_list([A|As], [B|Bs]) :- c03_fix(A, B), c03_fix_list(As, Bs).

c03_loaded.
