// Generates the property registry: every src/props/cNN.rs must export `pub struct CNN;`
// implementing `engine::Prop`; every src/shared/*.rs becomes `crate::shared::<name>`.
use std::fmt::Write;
use std::path::Path;

fn main() {
    let dir = std::env::var("CARGO_MANIFEST_DIR").unwrap();
    let out = std::env::var("OUT_DIR").unwrap();
    println!("cargo:rerun-if-changed=src/props");
    println!("cargo:rerun-if-changed=src/shared");
    let mut props: Vec<String> = vec![];
    for e in std::fs::read_dir(Path::new(&dir).join("src/props")).unwrap() {
        let name = e.unwrap().file_name().to_string_lossy().to_string();
        if let Some(stem) = name.strip_suffix(".rs") {
            if stem.len() >= 3 && stem.starts_with('c') && stem[1..].chars().all(|c| c.is_ascii_digit()) {
                props.push(stem.to_string());
            }
        }
    }
    props.sort();
    let mut s = String::new();
    for p in &props {
        writeln!(s, "#[path = \"{dir}/src/props/{p}.rs\"] pub mod {p};").unwrap();
    }
    writeln!(s, "pub fn all() -> Vec<&'static dyn crate::engine::Prop> {{ vec![").unwrap();
    for p in &props {
        writeln!(s, "    &{p}::{},", p.to_uppercase()).unwrap();
    }
    writeln!(s, "] }}").unwrap();
    std::fs::write(Path::new(&out).join("registry.rs"), s).unwrap();

    let mut shared: Vec<String> = vec![];
    if let Ok(rd) = std::fs::read_dir(Path::new(&dir).join("src/shared")) {
        for e in rd {
            let name = e.unwrap().file_name().to_string_lossy().to_string();
            if let Some(stem) = name.strip_suffix(".rs") {
                shared.push(stem.to_string());
            }
        }
    }
    shared.sort();
    let mut s = String::new();
    for m in &shared {
        writeln!(s, "#[path = \"{dir}/src/shared/{m}.rs\"] pub mod {m};").unwrap();
    }
    std::fs::write(Path::new(&out).join("shared.rs"), s).unwrap();
}
