#!/usr/bin/env python3
"""Replay every known-finding witness; report which open findings no longer reproduce and which fixed ones fail."""
import json, glob, subprocess, sys
BIN='/verif/harness/target/release/vcheck'
files=['/verif/known_findings.json']+sorted(glob.glob('/verif/known/*.json'))
for f in files:
    for e in json.load(open(f)):
        w=e.get('witness')
        if not w: print('NO-WITNESS', e['property'], e['signature']); continue
        try:
            r=subprocess.run([BIN,'replay',e['property'],'/verif/'+w,'--raw'],capture_output=True,text=True,timeout=400)
            line=[l for l in r.stdout.splitlines() if l.startswith('RESULT')]
            res=line[0] if line else f'crash rc={r.returncode}'
        except subprocess.TimeoutExpired:
            res='hang'
        st=e['status']
        flag=''
        if st=='open' and res.startswith('RESULT pass'): flag='<<< open but passes'
        if st=='open' and not res.startswith('RESULT pass') and res!=f"RESULT fail {e['signature']}" : flag='<<< different outcome'
        if st=='fixed' and not res.startswith('RESULT pass'): flag='<<< FIXED BUT FAILS'
        print(f"{e['property']} {st:5} {e['signature'][:50]:50} -> {res[:70]} {flag}")
