#!/usr/bin/env python3
"""Regenerate /verif/MANIFEST.json from tools/props_meta.json and the properties the harness implements."""
import json, subprocess, os, sys
root = '/verif'
meta = {}
import glob
for f in sorted(glob.glob(f'{root}/tools/meta/*.json')):
    meta[os.path.basename(f)[:-5]] = json.load(open(f))
props = [json.loads(l) for l in open(f'{root}/properties.jsonl')]
try:
    impl = subprocess.run([f'{root}/harness/target/release/vcheck', 'list'], capture_output=True, text=True, check=True).stdout.split()
except Exception as e:
    impl = json.load(open(f'{root}/tools/implemented.json'))
json.dump(sorted(impl), open(f'{root}/tools/implemented.json', 'w'))
hooks_commits = subprocess.run(['git', '-C', '/repo', 'log', '--format=%H %s'], capture_output=True, text=True).stdout.splitlines()
hook_shas = [l.split()[0] for l in hooks_commits if ' verif hooks:' in l]
checks = []
na = []
for p in props:
    pid = p['id']
    m = meta.get(pid, {})
    if pid in impl and not m.get('withdrawn'):
        cat = m.get('category', 'exploration')
        checks.append({
            'property_id': pid,
            'quick_cmd': f'./check {pid} --tier quick',
            'thorough_cmd': f'./check {pid} --tier thorough',
            'evidence_file': f'/verif/evidence/{pid}.json',
            'replay_cmd_template': f'./check {pid} --replay {{path}}',
            'engine': m.get('engine', 'vcheck'),
            'level_claimed': {'category': cat, 'text': m.get('level_text', ''), 'design_ref': f'DESIGN.md section 6 {pid}'},
            'level_note': m.get('level_note', 'Trusted: rustc/std, proptest, the harness models; see DESIGN.md section 8.3'),
            'technique': m.get('technique', 'property-based testing (proptest) against an explicit oracle'),
        })
    else:
        na.append({'property_id': pid, 'reason': m.get('na_reason', 'check not yet implemented in this revision of the harness (design in DESIGN.md section 6); not claimed')})
manifest = {
    'version': 1,
    'setup_cmd': 'cd /verif/harness && CARGO_NET_OFFLINE=true cargo build --release --offline',
    'hooks': {
        'guard': 'cargo feature verif_hooks',
        'enable': 'the harness crate depends on scryer-prolog = { path = "/repo", features = ["verif_hooks"] }; ./check rebuilds it from /repo\'s working tree on every run',
        'baseline_off_cmd': 'cd /repo && cargo nextest run --workspace --no-fail-fast --tool-config-file pb:/w/lib/nextest.toml --profile pb --test-threads 8 --offline',
        'source_commits': hook_shas,
        'add_only': True,
    },
    'engines': [
        {'name': 'vcheck', 'path': '/verif/harness', 'serves_properties': sorted(c['property_id'] for c in checks), 'kind_free_text': 'Rust binary linking /repo as a path dependency; proptest-driven generators, explicit oracles (reference models, round trips, differential and metamorphic relations), 16 worker processes, shrinking, replay files'},
    ],
    'checks': checks,
    'not_applicable': na,
    'notes': 'Known findings: /verif/known_findings.json. Violations write replay files under /verif/replays/<id>/. Exit 2 = inconclusive (build failure, watchdog), never a violation.',
}
json.dump(manifest, open(f'{root}/MANIFEST.json', 'w'), indent=1)
print(f'{len(checks)} checks, {len(na)} not claimed')
