#!/usr/bin/env python3
"""Set status=fixed (+commit) on open known findings whose witness now passes. Mapping by (property, substring of signature)."""
import json, glob, subprocess
BIN='/verif/harness/target/release/vcheck'
rules=[ # (property, signature substring, commit)
 ('C15','apos2','745a59f'),('C55','apos2','745a59f'),('C16','float-lossy','c4c1d15'),
 ('C18','smallvec','ee79af4'),('C18','char_reader.rs:159','ee79af4'),('C18','char_reader.rs:157','ee79af4'),('C18','bad-trunc-end','ee79af4'),
 ('C33','copy_pstr_within','d1e5a51'),('C36','2^55','514c862'),
 ('C44','get-mismatch/integer_rounding_function','c917139'),('C44','set-accepted-readonly-change/integer_rounding_function','9dc09ea'),('C44','set-wrong-error/integer_rounding_function','ba57147'),
 ('C52','system_calls.rs:6914','8b556ba'),('C52','system_calls.rs:6919','8b556ba'),
 ('C24','acyclic_term','724e3fb'),('C22','char_code','a60600d'),('C22','lower','bd4a35a'),('C10','pstr','7936163'),('C13','pstr','7936163'),('C20','pstr','7936163'),
 ('C14','sort-rejects-list','b411781'),('C14','keysort','076f4ab'),('C14','ord_list_to_assoc','ad01eca'),('C20','suffix','64d8fe6'),
]
import sys
for f in ['/verif/known_findings.json']+sorted(glob.glob('/verif/known/*.json')):
    es=json.load(open(f)); changed=False
    for e in es:
        if e['status']!='open' or not e.get('witness'): continue
        try:
            r=subprocess.run([BIN,'replay',e['property'],'/verif/'+e['witness'],'--raw'],capture_output=True,text=True,timeout=300)
        except subprocess.TimeoutExpired: continue
        if not any(l.startswith('RESULT pass') for l in r.stdout.splitlines()): continue
        c=[c for (p,s,c) in rules if p==e['property'] and s in e['signature']]
        if not c: print('passes but no rule:', e['property'], e['signature']); continue
        e['status']='fixed'; e['commit']=c[0]; changed=True; print('fixed', e['property'], e['signature'][:60], c[0])
    if changed: json.dump(es,open(f,'w'),indent=1)
