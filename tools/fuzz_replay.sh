#!/bin/bash
# usage: tools/fuzz_replay.sh <ID|target> <file>
# Runs one saved input through the fuzz target of the property in a fresh process.
# Exit: 0 the input passes (or only hits a listed known finding); 1 VIOLATION; 2 inconclusive.
set -u
ROOT="$(cd "$(dirname "${BASH_SOURCE[0]}")/.." && pwd)"
export VERIF_ROOT="$ROOT"
. "$ROOT/tools/fuzz_common.sh"
ID="${1:-}"; FILE="${2:-}"
TARGET="$(fuzz_target_of "$ID")"
if [ -z "$TARGET" ] || [ -z "$FILE" ] || [ ! -f "$FILE" ]; then
  echo "usage: tools/fuzz_replay.sh <C15|C16|C17|C18|C33> <file>"; exit 2
fi
fuzz_build "$TARGET" || exit 2
WORK="$ROOT/scratch/fuzz-replay-$TARGET-$$"
mkdir -p "$WORK"
export VFUZZ_SCRATCH="$WORK"
LOG="$WORK/replay.log"
VFUZZ_VERBOSE=1 timeout 600 "$FUZZ_BIN" -timeout=300 -rss_limit_mb=4096 -detect_leaks=0 -artifact_prefix="$WORK/" "$FILE" >"$LOG" 2>&1
rc=$?
if [ $rc -eq 0 ]; then
  grep -E "^(tolerated known finding|VFUZZ-UNCONFIRMED)" "$LOG" | sort | uniq -c
  echo "PASS property=$ID replay=$FILE"
  rm -rf "$WORK"
  exit 0
fi
if [ $rc -eq 124 ]; then
  echo "INCONCLUSIVE property=$ID replay=$FILE did not finish within 600 s"
  rm -rf "$WORK"
  exit 2
fi
grep -E "^VFUZZ-(VIOLATION|DETAIL|HARNESS-BUG)|ERROR: (AddressSanitizer|libFuzzer)|^SUMMARY" "$LOG" | head -8
if grep -q "^VFUZZ-HARNESS-BUG" "$LOG"; then
  echo "INCONCLUSIVE property=$ID replay=$FILE the fuzz harness itself failed"
  rm -rf "$WORK"
  exit 2
fi
echo "VIOLATION property=$ID replay=$FILE"
rm -rf "$WORK"
exit 1
