#!/bin/bash
# Runs the registered quick check of <ID> against /repo with seeded/<ID>/patch.diff applied, then undoes it.
# usage: seeded_trial.sh <ID> [<other check IDs to run as well>...]
ID="$1"; shift
cd /repo || exit 2
[ -z "$(git status --porcelain)" ] || { echo "/repo not clean"; exit 2; }
git apply /verif/seeded/$ID/patch.diff || exit 2
cd /verif
for C in "$ID" "$@"; do
  VERIF_JOBS=${VERIF_JOBS:-14} timeout 2400 ./check $C --tier quick > scratch/seeded_$ID_$C.log 2>&1; rc=$?
  line=$(grep -A1 "^VIOLATION" scratch/seeded_$ID_$C.log | grep detail | head -1 | cut -c1-400)
  echo "seeded $ID: check $C exit=$rc $line" | tee -a seeded/$ID/result.txt
done
git -C /repo checkout -- .
