#!/usr/bin/env python3
"""Greedy minimiser for replay files whose failure is a hang or a crash: tries deleting list elements
anywhere in the case while `vcheck replay` still times out / still prints the same RESULT line.
usage: ddmin_hang.py <ID> <replay.json> <out.json> [timeout_s]"""
import json, subprocess, sys, copy
pid, src, out = sys.argv[1:4]
tmo = float(sys.argv[4]) if len(sys.argv) > 4 else 8
BIN = '/verif/harness/target/release/vcheck'
doc = json.load(open(src))
def outcome(case):
    d = dict(doc); d['case'] = case
    json.dump(d, open(out + '.tmp', 'w'))
    try:
        r = subprocess.run([BIN, 'replay', pid, out + '.tmp', '--raw'], capture_output=True, text=True, timeout=tmo)
        lines = [l for l in r.stdout.splitlines() if l.startswith('RESULT')]
        return lines[0] if lines else f'crash:{r.returncode}'
    except subprocess.TimeoutExpired:
        return 'hang'
target = outcome(doc['case'])
print('target outcome:', target)
if target == 'RESULT pass': sys.exit(1)
def paths(x, p=()):
    if isinstance(x, list):
        for i in range(len(x)):
            yield p + (i,)
        for i, e in enumerate(x):
            yield from paths(e, p + (i,))
    elif isinstance(x, dict):
        for k, v in x.items():
            yield from paths(v, p + (k,))
def delete(x, path):
    y = copy.deepcopy(x); cur = y
    for k in path[:-1]: cur = cur[k]
    del cur[path[-1]]
    return y
case = doc['case']; changed = True
while changed:
    changed = False
    for p in sorted(paths(case), key=lambda p: -len(p)):
        try: cand = delete(case, p)
        except Exception: continue
        if outcome(cand) == target:
            case = cand; changed = True; break
doc['case'] = case
json.dump(doc, open(out, 'w'), indent=1)
print(json.dumps(case))
