#!/bin/bash
# usage: run_all_quick_seed.sh <seed>   (summary lines to stdout; logs under scratch/)
cd /verif; S="$1"
for id in $(python3 -c "import json;print(' '.join(c['property_id'] for c in json.load(open('MANIFEST.json'))['checks']))"); do
  t0=$(date +%s); VERIF_SEED=$S ./check $id --tier quick > scratch/all${S}_$id.log 2>&1; rc=$?; t1=$(date +%s)
  echo "$id seed=$S exit=$rc wall=$((t1-t0))s :: $(grep -A1 -E '^(VIOLATION|INCONCLUSIVE)' scratch/all${S}_$id.log | head -2 | tr '\n' ' ' | cut -c1-400)"
done
