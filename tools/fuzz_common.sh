# shared by fuzz_stage.sh and fuzz_replay.sh (sourced)
# ID -> libFuzzer target
fuzz_target_of() {
  case "$1" in
    C18|charreader) echo charreader;;
    C33|heapops) echo heapops;;
    C17|reader) echo reader;;
    C16|numlit) echo numlit;;
    C15|roundtrip) echo roundtrip;;
    *) echo "";;
  esac
}

# builds target $1 (serialised through a lock; cargo decides whether anything is stale).
# cargo-fuzz wants to be started inside an ordinary cargo project: the harness crate serves.
fuzz_build() {
  local target="$1" log="$ROOT/scratch/fuzz-build.$$.log" rc
  if [ -n "${FUZZ_BIN_DIR:-}" ]; then
    # prebuilt binaries (mutant trials built into another target directory)
    FUZZ_BIN="$FUZZ_BIN_DIR/$target"
    [ -x "$FUZZ_BIN" ] || { echo "INCONCLUSIVE property=$ID no binary $FUZZ_BIN"; return 2; }
    return 0
  fi
  mkdir -p "$ROOT/scratch"
  [ -f "$ROOT/fuzz/Cargo.lock" ] || cp "$ROOT/repo_link/Cargo.lock" "$ROOT/fuzz/Cargo.lock"
  (
    flock 9
    cd "$ROOT/harness" && CARGO_NET_OFFLINE=true cargo +nightly fuzz build --fuzz-dir "$ROOT/fuzz" -O --codegen-units 16 "$target" >"$log" 2>&1
  ) 9>"$ROOT/scratch/fuzz-build.lock"
  rc=$?
  if [ $rc -ne 0 ]; then
    echo "INCONCLUSIVE property=$ID fuzz build failed (see below)"
    tail -40 "$log"
    rm -f "$log"
    return 2
  fi
  rm -f "$log"
  FUZZ_BIN="$ROOT/fuzz/target/x86_64-unknown-linux-gnu/release/$target"
  [ -x "$FUZZ_BIN" ] || { echo "INCONCLUSIVE property=$ID no binary $FUZZ_BIN"; return 2; }
  return 0
}

# leaks are not what the properties are about (the machine keeps process-wide tables)
export ASAN_OPTIONS="${ASAN_OPTIONS:-detect_leaks=0:abort_on_error=1:symbolize=1}"
