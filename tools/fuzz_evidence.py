#!/usr/bin/env python3
"""Fold the summary line of tools/fuzz_stage.sh into evidence/<ID>.json (coverage.fuzz_stage)."""
import json, re, sys
pid, log, rc = sys.argv[1], sys.argv[2], int(sys.argv[3])
text = open(log, errors='replace').read()
m = re.search(r'^FUZZ property=.*$', text, re.M)
info = {'exit': rc}
if m:
    for kv in m.group(0).split()[1:]:
        if '=' in kv:
            k, v = kv.split('=', 1)
            info[k] = int(v) if v.isdigit() else v
else:
    info['note'] = 'fuzz stage produced no summary line (build failure or crash before start)'
p = f'/verif/evidence/{pid}.json'
import os
root = os.environ.get('VERIF_ROOT', '/verif')
p = f'{root}/evidence/{pid}.json'
e = json.load(open(p))
e['coverage']['fuzz_stage'] = info
if rc == 1:
    e['violations'] = int(e.get('violations', 0)) + 1
json.dump(e, open(p, 'w'), indent=2)
