#!/bin/bash
# usage: mutant_trial.sh <name> <file> <sed-expr> <ID> [<ID>...]   (uses /tmp/mut-main + /tmp/vm-main)
name="$1"; file="$2"; expr="$3"; shift 3
cd /tmp/mut-main && git checkout -q -- . && sed -i "$expr" "$file" && git diff --stat | tail -1
cd /tmp/vm-main && git reset -q --hard main; ln -sfn /tmp/mut-main /tmp/vm-main/repo_link
for id in "$@"; do
  VERIF_JOBS=${VERIF_JOBS:-10} timeout 1500 ./check $id --tier quick > scratch_$name_$id.log 2>&1; rc=$?
  echo "MUTANT $name $id exit=$rc :: $(grep -E 'VIOLATION|INCONCLUSIVE' scratch_$name_$id.log | head -2 | cut -c1-200 | tr '\n' ' ') $(grep -A1 VIOLATION scratch_$name_$id.log | grep detail | head -1 | cut -c1-300)"
done
cd /tmp/mut-main && git checkout -q -- .
