#!/bin/bash
# Confirms each seeded change independently: in a scratch worktree of /repo, (1) unchanged tree builds and the
# demo passes, (2) with the patch: builds, demo fails, existing test suite passes. Writes seeded/<ID>/confirm.txt.
# usage: seeded_confirm.sh <worktree> <ID>...
WT="$1"; shift
[ -d "$WT" ] || git -C /repo worktree add -q --detach "$WT" HEAD
cd "$WT" || exit 2
git checkout -q -- . ; export CARGO_NET_OFFLINE=true
if [ ! -x "$WT/base/scryer-prolog" ]; then
  cargo build --offline >"$WT/build_base.log" 2>&1 || { echo "base build failed"; exit 2; }
  mkdir -p base && cp -r target/debug/scryer-prolog base/ && cp target/debug/libscryer_prolog.rlib base/ 2>/dev/null
fi
for ID in "$@"; do
  S=/verif/seeded/$ID; OUT=$S/confirm.txt; : > $OUT
  git checkout -q -- .
  (cd $S && timeout 600 bash demo.sh "$WT/base/scryer-prolog" >/dev/null 2>&1); echo "demo on unchanged tree: exit $?" >> $OUT
  git apply $S/patch.diff || { echo "patch does not apply" >> $OUT; continue; }
  if cargo build --offline >"$WT/build_$ID.log" 2>&1; then echo "build with patch: ok" >> $OUT; else echo "build with patch: FAILED" >> $OUT; git checkout -q -- .; continue; fi
  (cd $S && timeout 600 bash demo.sh "$WT/target/debug/scryer-prolog" >/dev/null 2>&1); echo "demo with patch: exit $?" >> $OUT
  timeout 3000 cargo nextest run --workspace --no-fail-fast --offline --test-threads 6 -E 'not test(cli_tests)' >"$WT/test_$ID.log" 2>&1
  grep -a "Summary" "$WT/test_$ID.log" | tail -1 | sed 's/^ *//' >> $OUT
  grep -aE "^\s+FAIL" "$WT/test_$ID.log" | sed 's/.*) //' | sort -u | tr '\n' ' ' >> $OUT; echo >> $OUT
  git checkout -q -- .
done
echo CONFIRM-DONE
