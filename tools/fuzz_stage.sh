#!/bin/bash
# usage: tools/fuzz_stage.sh <ID> <quick|thorough> <seed> [empty]
#   ID: C18 (charreader) | C33 (heapops) | C17 (reader) | C16 (numlit) | C15 (roundtrip)
# Builds the libFuzzer target of the property if needed and runs it with fixed work
# (-runs=N by tier, split over VERIF_JOBS processes, default all cores), -len_control=0, on a
# FRESH copy of the seed corpus fuzz/corpus/<target> (an empty corpus with the 4th argument
# `empty`) under scratch/. Process j uses -seed=<seed>*64+j+1 (libFuzzer treats 0 as "random").
# Every saved artifact (crash / timeout / oom) is re-run alone in a fresh process; if it fails
# again it is copied to replays/<ID>/fuzz-<hash>.bin and reported:
#   VIOLATION property=<ID> replay=<path>
# The time bound (-max_total_time) only matters on an overloaded machine; FUZZ_RUNS and
# FUZZ_MAX_TOTAL_TIME override the tier's values, FUZZ_BIN_DIR the directory of the binaries.
# Exit: 0 no crash (tolerated known findings are counted in the summary line);
#       1 VIOLATION; 2 inconclusive (build failure, artifact that does not reproduce).
set -u
ROOT="$(cd "$(dirname "${BASH_SOURCE[0]}")/.." && pwd)"
export VERIF_ROOT="$ROOT"
. "$ROOT/tools/fuzz_common.sh"
ID="${1:-}"; TIER="${2:-quick}"; SEED="${3:-0}"; MODE="${4:-seeded}"
TARGET="$(fuzz_target_of "$ID")"
if [ -z "$TARGET" ]; then
  echo "usage: tools/fuzz_stage.sh <C15|C16|C17|C18|C33> <quick|thorough> <seed> [empty]"; exit 2
fi
case "$SEED" in ''|*[!0-9]*) echo "seed must be a non-negative integer"; exit 2;; esac

# fixed work per tier: TOTAL executions (split over the processes), time bound in seconds
case "$TARGET:$TIER" in
  charreader:quick)    RUNS=320000;    TMAX=150;   MAXLEN=160;;
  charreader:thorough) RUNS=32000000;  TMAX=7200;  MAXLEN=160;;
  heapops:quick)       RUNS=320000;    TMAX=150;   MAXLEN=512;;
  heapops:thorough)    RUNS=32000000;  TMAX=7200;  MAXLEN=512;;
  reader:quick)        RUNS=8000;      TMAX=150;   MAXLEN=256;;
  reader:thorough)     RUNS=800000;    TMAX=14400; MAXLEN=512;;
  numlit:quick)        RUNS=16000;     TMAX=150;   MAXLEN=96;;
  numlit:thorough)     RUNS=1600000;   TMAX=14400; MAXLEN=96;;
  roundtrip:quick)     RUNS=8000;      TMAX=150;   MAXLEN=256;;
  roundtrip:thorough)  RUNS=800000;    TMAX=14400; MAXLEN=256;;
  *) echo "tier must be quick or thorough"; exit 2;;
esac
RUNS="${FUZZ_RUNS:-$RUNS}"
TMAX="${FUZZ_MAX_TOTAL_TIME:-$TMAX}"
JOBS="${VERIF_JOBS:-$(nproc)}"
[ "$JOBS" -ge 1 ] 2>/dev/null || JOBS=1
PER=$(( (RUNS + JOBS - 1) / JOBS ))

fuzz_build "$TARGET" || exit 2

WORK="$ROOT/scratch/fuzz-$TARGET-s$SEED-$$"
rm -rf "$WORK"; mkdir -p "$WORK/corpus" "$WORK/tmp"
if [ "$MODE" != "empty" ] && [ -d "$ROOT/fuzz/corpus/$TARGET" ]; then
  cp "$ROOT/fuzz/corpus/$TARGET"/* "$WORK/corpus/" 2>/dev/null
fi
export VFUZZ_SCRATCH="$WORK/tmp"
DICT=""
[ -f "$ROOT/fuzz/dict/$TARGET.dict" ] && DICT="-dict=$ROOT/fuzz/dict/$TARGET.dict"

T0=$(date +%s)
PIDS=()
for j in $(seq 0 $((JOBS - 1))); do
  mkdir -p "$WORK/art$j"
  S=$(( SEED * 64 + j + 1 ))
  "$FUZZ_BIN" -seed=$S -runs=$PER -len_control=0 -max_total_time=$TMAX -max_len=$MAXLEN \
      -timeout=180 -report_slow_units=600 -rss_limit_mb=4096 -detect_leaks=0 -print_final_stats=1 -reload=1 $DICT \
      -artifact_prefix="$WORK/art$j/" "$WORK/corpus" >"$WORK/job$j.log" 2>&1 &
  PIDS+=($!)
done
FAILED=0
for p in "${PIDS[@]}"; do
  wait "$p" || FAILED=1
done
T1=$(date +%s)

EXECS=$(grep -h "^stat::number_of_executed_units" "$WORK"/job*.log | awk '{s+=$2} END {print s+0}')
COV=$(grep -h " cov: " "$WORK"/job*.log | sed -E 's/.* cov: ([0-9]+).*/\1/' | sort -n | tail -1)
TOL=$(grep -h "^VFUZZ-TOLERATED" "$WORK"/job*.log | awk '{s+=$3} END {print s+0}')
CORP=$(ls "$WORK/corpus" | wc -l)
WALL=$((T1 - T0)); [ "$WALL" -lt 1 ] && WALL=1
echo "FUZZ property=$ID target=$TARGET tier=$TIER seed=$SEED corpus=$MODE jobs=$JOBS executions=$EXECS wall_s=$WALL exec_per_s=$((EXECS / WALL)) edges=${COV:-0} corpus_files=$CORP tolerated_known=$TOL"
grep -h "^VFUZZ-UNCONFIRMED" "$WORK"/job*.log | sort | uniq -c | head -5

ARTS=$(find "$WORK"/art* -type f \( -name "crash-*" -o -name "timeout-*" -o -name "oom-*" \) 2>/dev/null | sort)
if [ -z "$ARTS" ]; then
  if [ $FAILED -ne 0 ]; then
    echo "INCONCLUSIVE property=$ID a fuzz process failed without leaving an artifact"
    tail -5 "$WORK"/job*.log | tail -30
    exit 2
  fi
  rm -rf "$WORK"
  exit 0
fi

# confirm every artifact alone, in a fresh process
RC=2
mkdir -p "$ROOT/replays/$ID"
for a in $ARTS; do
  H=$(sha256sum "$a" | cut -c1-16)
  CLOG="$WORK/confirm-$H.log"
  VFUZZ_VERBOSE=1 timeout 600 "$FUZZ_BIN" -timeout=300 -rss_limit_mb=4096 -detect_leaks=0 -artifact_prefix="$WORK/tmp/" "$a" >"$CLOG" 2>&1
  crc=$?
  if [ $crc -ne 0 ] && [ $crc -ne 124 ] && ! grep -q "^VFUZZ-HARNESS-BUG" "$CLOG"; then
    OUT="$ROOT/replays/$ID/fuzz-$H.bin"
    cp "$a" "$OUT"
    grep -E "^VFUZZ-(VIOLATION|DETAIL)|ERROR: (AddressSanitizer|libFuzzer)|^SUMMARY" "$CLOG" | head -6
    echo "VIOLATION property=$ID replay=$OUT"
    RC=1
    break
  else
    echo "UNCONFIRMED property=$ID artifact $(basename "$a") did not fail again when run alone (kept in $WORK)"
    grep -E "^VFUZZ-HARNESS-BUG" "$CLOG" | head -2
  fi
done
[ $RC -eq 1 ] && rm -rf "$WORK/corpus" "$WORK/tmp"
exit $RC
