#!/bin/bash
# Runs every registered quick check on /repo's working tree (rewrites evidence/*.json); summary to stdout.
cd /verif
for id in $(python3 -c "import json;print(' '.join(c['property_id'] for c in json.load(open('MANIFEST.json'))['checks']))"); do
  t0=$(date +%s); ./check $id --tier quick > scratch/all_$id.log 2>&1; rc=$?; t1=$(date +%s)
  echo "$id exit=$rc wall=$((t1-t0))s $(grep -c '^KNOWN-FINDING' scratch/all_$id.log) known :: $(grep -E '^(VIOLATION|INCONCLUSIVE)' scratch/all_$id.log | head -1 | cut -c1-160)"
done
