:- use_module(library(iso_ext)).
:- use_module(library(lists)).
t(N, G) :- catch((G -> write(yes) ; write(no)), E, write(ex(E))), write('  '), write(N), nl.
:- initialization(t(1, (S = "aaaaaaa\x80\@z", S = [_,_,_,_,_,_,_,_|B], findall(B, true, L), L == ["@z"]))).
:- initialization(t(2, (S = "aaaaaaa\x80\@z", S = [_,_,_,_,_,_,_,_|B], catch(throw(B), X, true), X == "@z"))).
:- initialization(t(3, (S = "aaaaaaa\x80\@z", S = [_,_,_,_,_,_,_,_|B], bb_put(k, B), bb_get(k, Y), Y == "@z"))).
:- initialization(t(4, (atom_chars('日日aéaaaaa\x10000\a', S), findall(B, append(_, B, S), L), length(L, 12), nth0(11, L, []), nth0(10, L, "a"), L = [S|_]))).
:- initialization(t(5, (S = "aaaaaaa\x80\", S = [_,_,_,_,_,_,_|B], findall(B, true, [B2]), B2 == B, atom_chars(A, B2), atom_length(A, 1)))).
:- initialization(t(6, (S = "ab\x0\cd\x0\", findall(S-B, append(_, B, S), L), length(L, 7)))).
:- initialization(t(7, (findall(X, member(X, ["abc", "", "日本語", "a\x0\b"]), L), L == ["abc", "", "日本語", "a\x0\b"]))).
:- initialization(t(8, (catch(throw(e("abcdefgh", "ijklmnopq\x0\r")), e(A1, A2), true), A1 == "abcdefgh", A2 == "ijklmnopq\x0\r"))).
:- initialization(t(9, (S = "xyzabcdefghijklmnop", S = [_,_,_|B], setof(Z, member(Z, [B, "q"]), L), L == ["abcdefghijklmnop", "q"]))).
:- initialization(halt).
