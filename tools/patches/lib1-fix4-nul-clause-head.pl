:- use_module(library(iso_ext)).
:- use_module(library(lists)).
:- dynamic(p1/1). :- dynamic(p2/1). :- dynamic(p3/1). :- dynamic(p4/1). :- dynamic(p5/1). :- dynamic(p7/2). :- dynamic(p8/2). :- dynamic(p9/1).
t(N, G) :- catch((G -> write(yes) ; write(no)), E, write(ex(E))), write('  '), write(N), nl.
:- initialization(t(1, (S = "\x0\6\x0\", assertz(p1(S)), p1(S)))).
:- initialization(t(2, (S = "a\x0\b\x0\c", assertz(p2(S)), p2(S)))).
:- initialization(t(3, (S = "a\x0\b", assertz(p3(S)), \+ p3("a\x0\c"), \+ p3("a"), \+ p3("a\x0\"), \+ p3("axb"), \+ p3("a\x0\bc"), p3("a\x0\b")))).
:- initialization(t(4, (assertz(p4("aaa\x0\")), S = "aaa\x0\", p4(S)))).
:- initialization(t(5, (assertz(p5("aaa\x0\")), atom_chars(A, "aaa\x0\"), atom_chars(A, S0), partial_string(S0, S, T), p5(S), T == []))).
:- initialization(t(6, (assertz(p7("a\x0\b", 1)), \+ p7("a", _), \+ p7("a\x0\", _), p7("a\x0\b", 1)))).
:- initialization(t(7, (assertz(p8(['a','\x0\','b'|T], T)), p8("a\x0\bcd", R), R == "cd"))).
:- initialization(t(8, (p8("a\x0\b", R2), R2 == []))).
:- initialization(t(9, (\+ p8("axbcd", _)))).
:- initialization(t(10, (assertz(p9("abcdefgh\x0\\x0\ijklmnop\x0\")), S9 = "abcdefgh\x0\\x0\ijklmnop\x0\", p9(S9), \+ p9("abcdefgh\x0\\x0\ijklmnop")))).
:- initialization(t(11, (p9(L9), atom_chars(A9, L9), atom_length(A9, 19)))).
:- initialization(t(12, (S = "aaaa\x0\aaa", atom_chars(A, S), atom_chars(A, P0), partial_string(P0, Q, []), assertz(p1(S)), p1(Q)))).
:- initialization(halt).
