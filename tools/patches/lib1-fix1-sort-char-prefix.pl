t(G) :- catch((G -> write(yes(G)) ; write(no(G))), E, write(ex(E))), nl.
:- initialization((
  t(sort([a,0],_)), t(sort([a,b,f(x),0.5,"s"],_)), t((X=[a|T],T=[0,b],sort(X,_))), t(keysort([a-1,b-2],_)),
  t(sort([a,_],_)), t(sort([a|_],_)), t(sort([a|b],_)), t(sort([a,0|b],_)), t(sort([a,0|_],_)), t(keysort([a,0],_)),
  t(sort("abc",_)), t((Y = [a,0|Z], Z = Y, sort(Y,_))), t((use_module(library(ordsets)), list_to_ord_set([c,1,a],_))),
  halt)).
